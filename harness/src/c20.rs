//! C20: drives the real `RoundRobin`, `ConsistentHash::with_hasher` and `Retry` stubs over
//! recording mock backends.
//!
//! Script: `<cfg>|tok tok ...`
//!   cfg  `rr;b=<n>`                         RoundRobin over n mocks
//!        `ch;b=<n>;h=<hasher>`              ConsistentHash::with_hasher; hasher: k<v> | id |
//!                                           af<a>.<c> | fnv | fold | rs (std RandomState) |
//!                                           dh (BuildHasherDefault<DefaultHasher>)
//!        `rt;p=<policy>;cap=<n>`            Retry over a scripted backend; policy: never | always |
//!                                           err | errlt<m> | lt<m> | tb<bits> | okb<v>
//!   tok  `c<req>[/<ctx>]`                   one call, made with caller context <ctx>
//!        `p<n1>.<n2>...`                    1-8 OS threads, thread t issues n_t calls through its
//!                                           own clone of the stub, all released by a barrier
//!        `r<req>[/<ctx>]:<res>.<res>...`    one Retry::call; the inner stub answers o<v> (Ok),
//!                                           d (DeadlineExceeded), x (Shutdown), s<code> (Server)
//!   ctx  `t<trace id>.s<span id>.<0|1 sampled>.d<deadline, signed ms from the script's base>`
//!        (omitted: trace 0, span 0, unsampled, +10000 ms).  Every mock records the context it is
//!        handed; the script runs under the virtual clock, so the deadline is read back exactly.
//! A token that is not an operation of the configured stub is a no-op (on both sides).
use crate::exec::{coq_list, Case};
use crate::rng::Rng;
use std::cell::RefCell;
use std::collections::hash_map::{DefaultHasher, RandomState};
use std::collections::BTreeSet;
use std::hash::{BuildHasher, BuildHasherDefault, Hasher};
use std::io;
use std::panic::{catch_unwind, AssertUnwindSafe};
use std::rc::Rc;
use std::sync::{Arc, Barrier, Mutex};
use std::time::{Duration, Instant};
use tarpc::client::stub::load_balance::{ConsistentHash, RoundRobin};
use tarpc::client::stub::retry::Retry;
use tarpc::client::stub::Stub;
use tarpc::client::RpcError;
use tarpc::context::{self, Context};
use tarpc::trace::{SamplingDecision, SpanId, TraceId};
use tarpc::ServerError;

#[derive(Clone, Debug, PartialEq)]
pub enum Res {
    Ok(u64),
    Deadline,
    Shutdown,
    Server(u64),
}
#[derive(Clone, Copy, Debug, PartialEq)]
pub struct Cx {
    pub trace: u128,
    pub span: u64,
    pub samp: bool,
    pub dl: i64,
}
pub const CX0: Cx = Cx { trace: 0, span: 0, samp: false, dl: 10_000 };
const DL_MAX: i64 = 900_000_000;
#[derive(Clone, Debug, PartialEq)]
pub enum Op {
    Call(Cx, u64),
    Par(Vec<u32>),
    RCall(Cx, u64, Vec<Res>),
}
#[derive(Clone, Debug, PartialEq)]
pub enum HK {
    Const(u64),
    Ident,
    Affine(u64, u64),
    Fnv,
    Fold,
    Random,
    DefaultSip,
}
#[derive(Clone, Debug, PartialEq)]
pub enum Policy {
    Never,
    Always,
    Err,
    ErrLt(u32),
    Lt(u32),
    Table(Vec<bool>),
    OkBelow(u64),
}
#[derive(Clone, Debug, PartialEq)]
pub enum Cfg {
    RR(usize),
    CH(usize, HK),
    RT(Policy, usize),
}
pub struct Script {
    pub cfg: Cfg,
    pub ops: Vec<Op>,
}

// ------------------------------------------------------------------------------ text format
fn show_res(r: &Res) -> String {
    match r {
        Res::Ok(v) => format!("o{v}"),
        Res::Deadline => "d".into(),
        Res::Shutdown => "x".into(),
        Res::Server(c) => format!("s{c}"),
    }
}
fn show_hk(h: &HK) -> String {
    match h {
        HK::Const(k) => format!("k{k}"),
        HK::Ident => "id".into(),
        HK::Affine(a, c) => format!("af{a}.{c}"),
        HK::Fnv => "fnv".into(),
        HK::Fold => "fold".into(),
        HK::Random => "rs".into(),
        HK::DefaultSip => "dh".into(),
    }
}
fn show_pol(p: &Policy) -> String {
    match p {
        Policy::Never => "never".into(),
        Policy::Always => "always".into(),
        Policy::Err => "err".into(),
        Policy::ErrLt(m) => format!("errlt{m}"),
        Policy::Lt(m) => format!("lt{m}"),
        Policy::Table(t) => format!("tb{}", t.iter().map(|b| if *b { '1' } else { '0' }).collect::<String>()),
        Policy::OkBelow(v) => format!("okb{v}"),
    }
}
pub fn show(s: &Script) -> String {
    let cfg = match &s.cfg {
        Cfg::RR(b) => format!("rr;b={b}"),
        Cfg::CH(b, h) => format!("ch;b={b};h={}", show_hk(h)),
        Cfg::RT(p, cap) => format!("rt;p={};cap={cap}", show_pol(p)),
    };
    let toks: Vec<String> = s
        .ops
        .iter()
        .map(|o| match o {
            Op::Call(c, r) => format!("c{r}{}", show_cx(c)),
            Op::Par(ns) => format!("p{}", ns.iter().map(|n| n.to_string()).collect::<Vec<_>>().join(".")),
            Op::RCall(c, r, rs) => {
                format!("r{r}{}:{}", show_cx(c), rs.iter().map(show_res).collect::<Vec<_>>().join("."))
            }
        })
        .collect();
    format!("{cfg}|{}", toks.join(" "))
}

fn show_cx(c: &Cx) -> String {
    if *c == CX0 {
        String::new()
    } else {
        format!("/t{}.s{}.{}.d{}", c.trace, c.span, c.samp as u8, c.dl)
    }
}
/// `<req>[/<ctx>]`
fn parse_req_cx(s: &str) -> Option<(Cx, u64)> {
    let Some((r, c)) = s.split_once('/') else { return Some((CX0, s.parse().ok()?)) };
    let f: Vec<&str> = c.split('.').collect();
    if f.len() != 4 {
        return None;
    }
    let cx = Cx {
        trace: f[0].strip_prefix('t')?.parse().ok()?,
        span: f[1].strip_prefix('s')?.parse().ok()?,
        samp: match f[2] {
            "0" => false,
            "1" => true,
            _ => return None,
        },
        dl: f[3].strip_prefix('d')?.parse::<i64>().ok()?.clamp(-DL_MAX, DL_MAX),
    };
    Some((cx, r.parse().ok()?))
}
fn parse_res(s: &str) -> Option<Res> {
    let (h, a) = s.split_at(1.min(s.len()));
    Some(match h {
        "o" => Res::Ok(a.parse().ok()?),
        "d" => Res::Deadline,
        "x" => Res::Shutdown,
        "s" => Res::Server(a.parse().ok()?),
        _ => return None,
    })
}
fn parse_hk(s: &str) -> Option<HK> {
    Some(match s {
        "id" => HK::Ident,
        "fnv" => HK::Fnv,
        "fold" => HK::Fold,
        "rs" => HK::Random,
        "dh" => HK::DefaultSip,
        _ => {
            if let Some(r) = s.strip_prefix("af") {
                let (a, c) = r.split_once('.')?;
                HK::Affine(a.parse().ok()?, c.parse().ok()?)
            } else {
                HK::Const(s.strip_prefix('k')?.parse().ok()?)
            }
        }
    })
}
fn parse_pol(s: &str) -> Option<Policy> {
    Some(match s {
        "never" => Policy::Never,
        "always" => Policy::Always,
        "err" => Policy::Err,
        _ => {
            if let Some(m) = s.strip_prefix("errlt") {
                Policy::ErrLt(m.parse().ok()?)
            } else if let Some(m) = s.strip_prefix("lt") {
                Policy::Lt(m.parse().ok()?)
            } else if let Some(t) = s.strip_prefix("tb") {
                Policy::Table(t.chars().map(|c| c == '1').collect())
            } else {
                Policy::OkBelow(s.strip_prefix("okb")?.parse().ok()?)
            }
        }
    })
}
pub fn parse(line: &str) -> Option<Script> {
    let (cfg, rest) = line.trim().split_once('|')?;
    let mut parts = cfg.split(';');
    let kind = parts.next()?.trim();
    let (mut b, mut h, mut p, mut cap) = (1usize, HK::Ident, Policy::Never, 10usize);
    for part in parts {
        let (k, v) = part.trim().split_once('=')?;
        match k {
            "b" => b = v.parse::<usize>().ok()?.clamp(1, 64),
            "h" => h = parse_hk(v)?,
            "p" => p = parse_pol(v)?,
            "cap" => cap = v.parse::<usize>().ok()?.clamp(1, 200),
            _ => return None,
        }
    }
    let cfg = match kind {
        "rr" => Cfg::RR(b),
        "ch" => Cfg::CH(b, h),
        "rt" => Cfg::RT(p, cap),
        _ => return None,
    };
    let mut ops = vec![];
    for t in rest.split_whitespace() {
        let (hd, a) = t.split_at(1);
        ops.push(match hd {
            "c" => {
                let (c, r) = parse_req_cx(a)?;
                Op::Call(c, r)
            }
            "p" => {
                let ns: Option<Vec<u32>> = a.split('.').map(|n| n.parse::<u32>().ok()).collect();
                let mut ns = ns?;
                ns.truncate(8);
                Op::Par(ns.into_iter().map(|n| n.min(2000)).collect())
            }
            "r" => {
                let (r, rs) = a.split_once(':')?;
                let rs: Option<Vec<Res>> =
                    rs.split('.').filter(|x| !x.is_empty()).map(parse_res).collect();
                let (c, r) = parse_req_cx(r)?;
                Op::RCall(c, r, rs?)
            }
            _ => return None,
        });
    }
    Some(Script { cfg, ops })
}

// ------------------------------------------------------------------------------ Coq terms
fn coq_res(r: &Res) -> String {
    match r {
        Res::Ok(v) => format!("(SOk {v})"),
        Res::Deadline => "SDeadline".into(),
        Res::Shutdown => "SShutdown".into(),
        Res::Server(c) => format!("(SServer {c})"),
    }
}
fn coq_result(r: &Result<u64, RpcError>) -> String {
    match r {
        Ok(v) => format!("(SOk {v})"),
        Err(RpcError::Shutdown) => "SShutdown".into(),
        Err(RpcError::DeadlineExceeded) => "SDeadline".into(),
        Err(RpcError::Server(e)) => {
            format!("(SServer {})", e.detail.parse::<u64>().unwrap_or(999_999_999))
        }
        Err(_) => "(SServer 999999998)".into(),
    }
}
fn coq_cx(c: &Cx) -> String {
    format!("(mkcx {} {} {} ({})%Z)", c.trace, c.span, c.samp, c.dl)
}
fn instant_at(t0: Instant, ms: i64) -> Instant {
    if ms >= 0 {
        t0 + Duration::from_millis(ms as u64)
    } else {
        t0 - Duration::from_millis(ms.unsigned_abs())
    }
}
/// The caller's context for one call.
fn make_ctx(c: &Cx, t0: Instant) -> Context {
    let mut ctx = context::current();
    ctx.deadline = instant_at(t0, c.dl);
    ctx.trace_context.trace_id = TraceId::from(c.trace);
    ctx.trace_context.span_id = SpanId::from(c.span);
    ctx.trace_context.sampling_decision =
        if c.samp { SamplingDecision::Sampled } else { SamplingDecision::Unsampled };
    ctx
}
/// What a mock was handed, read back exactly (the virtual clock keeps `t0` = now).
fn read_ctx(ctx: &Context, t0: Instant) -> Cx {
    let dl = if ctx.deadline >= t0 {
        (ctx.deadline - t0).as_millis() as i64
    } else {
        -((t0 - ctx.deadline).as_millis() as i64)
    };
    Cx {
        trace: u128::from(ctx.trace_context.trace_id),
        span: u64::from(ctx.trace_context.span_id),
        samp: ctx.trace_context.sampling_decision == SamplingDecision::Sampled,
        dl,
    }
}
fn coq_pol(p: &Policy) -> String {
    match p {
        Policy::Never => "PNever".into(),
        Policy::Always => "PAlways".into(),
        Policy::Err => "PErr".into(),
        Policy::ErrLt(m) => format!("(PErrLt {m})"),
        Policy::Lt(m) => format!("(PLt {m})"),
        Policy::Table(t) => {
            let v: Vec<&str> = t.iter().map(|b| if *b { "true" } else { "false" }).collect();
            format!("(PTable {})", coq_list(&v))
        }
        Policy::OkBelow(v) => format!("(POkBelow {v})"),
    }
}
fn coq_ops(ops: &[Op]) -> String {
    let v: Vec<String> = ops
        .iter()
        .map(|o| match o {
            Op::Call(c, r) => format!("Call {} {r}", coq_cx(c)),
            Op::Par(ns) => {
                let l: Vec<String> = ns.iter().map(|n| format!("{n}%nat")).collect();
                format!("Par {}", coq_list(&l))
            }
            Op::RCall(c, r, rs) => {
                let l: Vec<String> = rs.iter().map(coq_res).collect();
                format!("RCall {} {r} {}", coq_cx(c), coq_list(&l))
            }
        })
        .collect();
    coq_list(&v)
}

// ------------------------------------------------------------------------------ mock backends
/// A backend of the load balancers: records (its index, the request) and answers
/// `Ok(req + 1000 * (index + 1))`.
#[derive(Clone)]
struct Mock {
    idx: usize,
    t0: Instant,
    log: Arc<Mutex<Vec<(usize, Cx, u64)>>>,
}
impl Stub for Mock {
    type Req = u64;
    type Resp = u64;
    async fn call(&self, ctx: Context, req: u64) -> Result<u64, RpcError> {
        self.log.lock().unwrap().push((self.idx, read_ctx(&ctx, self.t0), req));
        Ok(req.wrapping_add(1000 * (self.idx as u64 + 1)))
    }
}
type MockLog = Arc<Mutex<Vec<(usize, Cx, u64)>>>;
fn mocks(b: usize, t0: Instant) -> (Vec<Mock>, MockLog) {
    let log = Arc::new(Mutex::new(vec![]));
    ((0..b).map(|idx| Mock { idx, t0, log: log.clone() }).collect(), log)
}

/// One call through a load balancer: which mock got it, with which request, and what came back.
fn one_call<S: Stub<Req = u64, Resp = u64>>(
    stub: &S,
    log: &MockLog,
    t0: Instant,
    cx: &Cx,
    req: u64,
    tags: &mut BTreeSet<String>,
) -> Vec<String> {
    log.lock().unwrap().clear();
    if *cx != CX0 {
        tags.insert("balance-nondefault-context".into());
    }
    let r = catch_unwind(AssertUnwindSafe(|| {
        futures::executor::block_on(stub.call(make_ctx(cx, t0), req))
    }));
    let seen = log.lock().unwrap().clone();
    match (r, seen.as_slice()) {
        (Ok(res), [(k, c, q)]) => vec![format!("OPick {k} {} {q} {}", coq_cx(c), coq_result(&res))],
        _ => vec!["OPanic".into()],
    }
}

fn run_rr(b: usize, ops: &[Op], t0: Instant, tags: &mut BTreeSet<String>) -> Vec<Vec<String>> {
    let (ms, log) = mocks(b, t0);
    let stub = RoundRobin::new(ms);
    let mut obs = vec![];
    let mut calls = 0usize;
    let mut had_par = false;
    for op in ops {
        obs.push(match op {
            Op::Call(c, r) => {
                calls += 1;
                if had_par {
                    tags.insert("rr-call-after-burst".into());
                }
                one_call(&stub, &log, t0, c, *r, tags)
            }
            Op::Par(ns) => {
                had_par = true;
                log.lock().unwrap().clear();
                let barrier = Arc::new(Barrier::new(ns.len().max(1)));
                let handles: Vec<_> = ns
                    .iter()
                    .enumerate()
                    .map(|(t, &n)| {
                        // every thread has its own clone: the cursor is shared by clones
                        let stub = stub.clone();
                        let barrier = barrier.clone();
                        std::thread::spawn(move || {
                            barrier.wait();
                            for i in 0..n {
                                let req = (t as u64) << 32 | i as u64;
                                let _ = futures::executor::block_on(stub.call(context::current(), req));
                            }
                        })
                    })
                    .collect();
                let mut panicked = false;
                for h in handles {
                    panicked |= h.join().is_err();
                }
                let mut counts = vec![0u64; b];
                for (k, _, _) in log.lock().unwrap().iter() {
                    counts[*k] += 1;
                }
                let total: u32 = ns.iter().sum();
                calls += total as usize;
                tags.insert(format!("rr-threads{}", ns.iter().filter(|n| **n > 0).count()));
                if ns.iter().filter(|n| **n > 0).count() >= 2 {
                    tags.insert("rr-concurrent-burst".into());
                }
                if panicked {
                    vec!["OPanic".into()]
                } else {
                    let l: Vec<String> = counts.iter().map(|c| c.to_string()).collect();
                    vec![format!("OCounts {}", coq_list(&l))]
                }
            }
            Op::RCall(..) => vec![],
        });
    }
    if calls >= 2 * b {
        tags.insert("rr-cycled-twice".into());
    }
    obs
}

// ---- hashers ----------------------------------------------------------------------------
#[derive(Clone)]
struct MyBuild(HK);
struct MyHasher {
    kind: HK,
    v: u64,
    fnv: u64,
}
impl BuildHasher for MyBuild {
    type Hasher = MyHasher;
    fn build_hasher(&self) -> MyHasher {
        MyHasher { kind: self.0.clone(), v: 0, fnv: 0xcbf2_9ce4_8422_2325 }
    }
}
impl Hasher for MyHasher {
    fn write(&mut self, bytes: &[u8]) {
        for b in bytes {
            self.fnv = (self.fnv ^ *b as u64).wrapping_mul(0x0000_0100_0000_01b3);
        }
        let mut a = [0u8; 8];
        for (i, b) in bytes.iter().take(8).enumerate() {
            a[i] = *b;
        }
        self.v = u64::from_le_bytes(a);
    }
    fn finish(&self) -> u64 {
        match self.kind {
            HK::Const(k) => k,
            HK::Ident => self.v,
            HK::Affine(a, c) => a.wrapping_mul(self.v).wrapping_add(c),
            HK::Fnv => self.fnv,
            HK::Fold => (self.v >> 32) ^ (self.v & 0xffff_ffff),
            HK::Random | HK::DefaultSip => 0,
        }
    }
}

fn run_ch<S: BuildHasher>(
    b: usize,
    hasher: S,
    ops: &[Op],
    t0: Instant,
    tags: &mut BTreeSet<String>,
) -> Vec<Vec<String>> {
    let (ms, log) = mocks(b, t0);
    let stub = match ConsistentHash::with_hasher(ms, hasher) {
        Ok(s) => s,
        Err(_) => return ops.iter().map(|_| vec!["OPanic".to_string()]).collect(),
    };
    let mut seen: Vec<u64> = vec![];
    let mut obs = vec![];
    for op in ops {
        obs.push(match op {
            Op::Call(c, r) => {
                if seen.contains(r) {
                    tags.insert("ch-repeated-request".into());
                }
                seen.push(*r);
                one_call(&stub, &log, t0, c, *r, tags)
            }
            _ => vec![],
        });
    }
    obs
}

// ---- retry ------------------------------------------------------------------------------
const CAP_MARK: &str = "verif-cap-reached";

/// The inner stub of `Retry`: answers from the script, records what it was asked and answered.
struct Scripted {
    script: Vec<Res>,
    n: RefCell<usize>,
    cap: usize,
    t0: Instant,
    events: Rc<RefCell<Vec<String>>>,
    first: RefCell<Option<Arc<u64>>>,
    same_arc: Rc<RefCell<bool>>,
}
fn mk_result(r: &Res) -> Result<u64, RpcError> {
    match r {
        Res::Ok(v) => Ok(*v),
        Res::Deadline => Err(RpcError::DeadlineExceeded),
        Res::Shutdown => Err(RpcError::Shutdown),
        Res::Server(c) => Err(RpcError::Server(ServerError::new(io::ErrorKind::Other, c.to_string()))),
    }
}
impl Stub for Scripted {
    type Req = Arc<u64>;
    type Resp = u64;
    async fn call(&self, ctx: Context, req: Arc<u64>) -> Result<u64, RpcError> {
        let n = *self.n.borrow();
        if n >= self.cap {
            panic!("{}", CAP_MARK);
        }
        *self.n.borrow_mut() = n + 1;
        let mut first = self.first.borrow_mut();
        match &*first {
            None => *first = Some(req.clone()),
            Some(f) => {
                if !Arc::ptr_eq(f, &req) {
                    *self.same_arc.borrow_mut() = false;
                }
            }
        }
        let res = self.script.get(n).cloned().unwrap_or(Res::Shutdown);
        self.events.borrow_mut().push(format!(
            "OCall {} {} {}",
            coq_cx(&read_ctx(&ctx, self.t0)),
            *req,
            coq_res(&res)
        ));
        mk_result(&res)
    }
}
fn eval_policy(p: &Policy, res: &Result<u64, RpcError>, i: u32) -> bool {
    match p {
        Policy::Never => false,
        Policy::Always => true,
        Policy::Err => res.is_err(),
        Policy::ErrLt(m) => res.is_err() && i < *m,
        Policy::Lt(m) => i < *m,
        Policy::Table(t) => t.get((i as usize).wrapping_sub(1)).copied().unwrap_or(false),
        Policy::OkBelow(v) => match res {
            Ok(w) => w < v,
            Err(_) => true,
        },
    }
}

fn run_rt(p: &Policy, cap: usize, ops: &[Op], t0: Instant, tags: &mut BTreeSet<String>) -> Vec<Vec<String>> {
    let mut obs = vec![];
    for op in ops {
        obs.push(match op {
            Op::RCall(cx, rq, script) => {
                let events: Rc<RefCell<Vec<String>>> = Default::default();
                let same_arc = Rc::new(RefCell::new(true));
                let inner = Scripted {
                    script: script.clone(),
                    n: RefCell::new(0),
                    cap,
                    t0,
                    events: events.clone(),
                    first: RefCell::new(None),
                    same_arc: same_arc.clone(),
                };
                let (pol, ev2) = (p.clone(), events.clone());
                let stub = Retry::new(inner, move |res: &Result<u64, RpcError>, i: u32| {
                    let d = eval_policy(&pol, res, i);
                    ev2.borrow_mut().push(format!("OPol {} {} {}", coq_result(res), i, d));
                    d
                });
                let r = catch_unwind(AssertUnwindSafe(|| {
                    futures::executor::block_on(stub.call(make_ctx(cx, t0), *rq))
                }));
                let mut evs = events.borrow().clone();
                let attempts = evs.iter().filter(|e| e.starts_with("OPol")).count();
                match r {
                    Ok(res) => {
                        if attempts >= 2 && *cx != CX0 {
                            tags.insert("retry-retried-nondefault-context".into());
                            if cx.dl <= 0 {
                                tags.insert("retry-retried-expired-deadline".into());
                            }
                        }
                        if attempts >= 2 {
                            tags.insert("retry-retried".into());
                            if res.is_ok() {
                                tags.insert("retry-ok-after-retries".into());
                            }
                        }
                        if attempts >= 4 {
                            tags.insert("retry-4+attempts".into());
                        }
                        if attempts > script.len() {
                            tags.insert("retry-past-script-end".into());
                        }
                        evs.push(format!("ODone {}", coq_result(&res)));
                    }
                    Err(e) => {
                        let is_cap = e
                            .downcast_ref::<String>()
                            .map_or(false, |s| s.contains(CAP_MARK));
                        if is_cap {
                            tags.insert("retry-cap-reached".into());
                            evs.push("OCap".into());
                        } else {
                            evs.push("OPanic".into());
                        }
                    }
                }
                if *same_arc.borrow() && attempts >= 2 {
                    tags.insert("retry-same-arc".into());
                }
                evs
            }
            _ => vec![],
        });
    }
    obs
}

fn overflow_checks() -> bool {
    catch_unwind(|| {
        let x: u8 = std::hint::black_box(255);
        std::hint::black_box(x + 1)
    })
    .is_err()
}

pub fn to_case(s: &Script) -> Case {
    let mut tags: BTreeSet<String> = Default::default();
    // virtual clock: Instant::now() is one fixed instant, deadlines are read back exactly
    crate::vclock::reset();
    let t0 = Instant::now();
    let (cfg, obs) = match &s.cfg {
        Cfg::RR(b) => {
            tags.insert("round-robin".into());
            (format!("(CRR {b})"), run_rr(*b, &s.ops, t0, &mut tags))
        }
        Cfg::CH(b, hk) => {
            tags.insert(format!("consistent-hash-{}", show_hk(hk).trim_end_matches(|c: char| c.is_ascii_digit() || c == '.')));
            let reqs: Vec<u64> = s
                .ops
                .iter()
                .filter_map(|o| if let Op::Call(_, r) = o { Some(*r) } else { None })
                .collect();
            let table = |f: &dyn Fn(u64) -> u64| {
                let mut seen = BTreeSet::new();
                let l: Vec<String> = reqs
                    .iter()
                    .filter(|r| seen.insert(**r))
                    .map(|r| format!("({r}, {})", f(*r)))
                    .collect();
                format!("(HTable {})", coq_list(&l))
            };
            let (hterm, obs) = match hk {
                HK::Random => {
                    let rs = RandomState::new();
                    let t = table(&|r| rs.hash_one(r));
                    (t, run_ch(*b, rs.clone(), &s.ops, t0, &mut tags))
                }
                HK::DefaultSip => {
                    let bh = BuildHasherDefault::<DefaultHasher>::default();
                    let t = table(&|r| bh.hash_one(r));
                    (t, run_ch(*b, bh, &s.ops, t0, &mut tags))
                }
                HK::Const(k) => (format!("(HConst {k})"), run_ch(*b, MyBuild(hk.clone()), &s.ops, t0, &mut tags)),
                HK::Ident => ("HIdent".into(), run_ch(*b, MyBuild(hk.clone()), &s.ops, t0, &mut tags)),
                HK::Affine(a, c) => {
                    (format!("(HAffine {a} {c})"), run_ch(*b, MyBuild(hk.clone()), &s.ops, t0, &mut tags))
                }
                HK::Fnv => ("HFnv".into(), run_ch(*b, MyBuild(hk.clone()), &s.ops, t0, &mut tags)),
                HK::Fold => ("HFold".into(), run_ch(*b, MyBuild(hk.clone()), &s.ops, t0, &mut tags)),
            };
            (format!("(CCH {b} (hash_of {hterm}))"), obs)
        }
        Cfg::RT(p, cap) => {
            tags.insert(format!("retry-{}", show_pol(p).trim_end_matches(|c: char| c.is_ascii_digit())));
            (
                format!("(CRetry (pol_eval {}) {cap} {})", coq_pol(p), overflow_checks()),
                run_rt(p, *cap, &s.ops, t0, &mut tags),
            )
        }
    };
    if obs.iter().any(|o| o.iter().any(|e| e == "OPanic")) {
        tags.insert("panic".into());
    }
    let obs: Vec<String> = obs.iter().map(|l| coq_list(l)).collect();
    Case {
        cfg,
        ops: coq_ops(&s.ops),
        obs: coq_list(&obs),
        tags: tags.into_iter().collect(),
        nops: s.ops.len(),
    }
}

// ------------------------------------------------------------------------------ generation
fn gen_req(rng: &mut Rng) -> u64 {
    match rng.weighted(&[6, 2, 1]) {
        0 => rng.below(12),
        1 => rng.next(),
        _ => u64::MAX - rng.below(3),
    }
}
/// The caller's context: 3 in 4 are non-default (several trace ids incl. beyond 64 bits, both
/// sampling decisions, live and already expired deadlines).
fn gen_cx(rng: &mut Rng) -> Cx {
    if rng.chance(1, 4) {
        return CX0;
    }
    Cx {
        trace: *rng.pick(&[1u128, 7, 42, (1u128 << 64) + 5, u128::MAX, 0]),
        span: if rng.chance(1, 2) { rng.range(1, 9) } else { rng.next() },
        samp: rng.chance(1, 2),
        dl: *rng.pick(&[10_000i64, 5_000, 1, 0, -1, -60_000, 3_600_000]),
    }
}
/// the contexts the sweep cycles through
fn sweep_cx(i: usize) -> Cx {
    [
        Cx { trace: 7, span: 3, samp: true, dl: 5_000 },
        Cx { trace: (1u128 << 64) + 5, span: u64::MAX, samp: false, dl: -60_000 },
        CX0,
        Cx { trace: 1, span: 0, samp: true, dl: 0 },
    ][i % 4]
}
fn gen_res(rng: &mut Rng) -> Res {
    match rng.weighted(&[3, 2, 2, 3]) {
        0 => Res::Ok(rng.below(5)),
        1 => Res::Deadline,
        2 => Res::Shutdown,
        _ => Res::Server(rng.range(1, 9)),
    }
}

pub fn gen(rng: &mut Rng) -> Script {
    match rng.weighted(&[4, 3, 3]) {
        0 => {
            let b = *rng.pick(&[1usize, 2, 2, 3, 3, 3, 4, 5, 7, 8]);
            let n = rng.range(1, 14) as usize;
            let mut ops = vec![];
            for _ in 0..n {
                ops.push(match rng.weighted(&[6, 4, 1]) {
                    0 => Op::Call(gen_cx(rng), gen_req(rng)),
                    1 => {
                        let threads = rng.range(1, 8) as usize;
                        Op::Par((0..threads).map(|_| rng.below(40) as u32).collect())
                    }
                    _ => Op::RCall(CX0, 1, vec![Res::Ok(1)]),
                });
            }
            Script { cfg: Cfg::RR(b), ops }
        }
        1 => {
            let b = *rng.pick(&[1usize, 2, 3, 3, 4, 5, 7, 16]);
            let hk = match rng.weighted(&[1, 2, 2, 3, 2, 2, 2]) {
                0 => HK::Const(rng.next()),
                1 => HK::Ident,
                2 => HK::Affine(rng.next() | 1, rng.next()),
                3 => HK::Fnv,
                4 => HK::Fold,
                5 => HK::Random,
                _ => HK::DefaultSip,
            };
            let n = rng.range(2, 16) as usize;
            let pool: Vec<u64> = (0..rng.range(1, 5)).map(|_| gen_req(rng)).collect();
            let ops = (0..n)
                .map(|_| {
                    let c = gen_cx(rng);
                    if rng.chance(7, 10) { Op::Call(c, *rng.pick(&pool)) } else { Op::Call(c, gen_req(rng)) }
                })
                .collect();
            Script { cfg: Cfg::CH(b, hk), ops }
        }
        _ => {
            let p = match rng.weighted(&[1, 1, 4, 3, 2, 2, 2]) {
                0 => Policy::Never,
                1 => Policy::Always,
                2 => Policy::Err,
                3 => Policy::ErrLt(rng.range(1, 6) as u32),
                4 => Policy::Lt(rng.range(1, 7) as u32),
                5 => Policy::Table((0..rng.range(0, 6)).map(|_| rng.chance(2, 3)).collect()),
                _ => Policy::OkBelow(rng.range(1, 4)),
            };
            let cap = rng.range(3, 25) as usize;
            let n = rng.range(1, 4) as usize;
            let ops = (0..n)
                .map(|_| {
                    let len = rng.range(0, 8) as usize;
                    Op::RCall(gen_cx(rng), gen_req(rng), (0..len).map(|_| gen_res(rng)).collect())
                })
                .collect();
            Script { cfg: Cfg::RT(p, cap), ops }
        }
    }
}

/// Bounded-exhaustive family (thorough tier).
pub fn sweep(mut f: impl FnMut(Script)) {
    // round robin: b = 1..8; k sequential calls for every k <= 3b; bursts from 1..8 threads
    for b in 1..=8usize {
        for k in 0..=3 * b {
            f(Script { cfg: Cfg::RR(b), ops: (0..k).map(|i| Op::Call(sweep_cx(i), i as u64)).collect() });
        }
        for threads in 1..=8usize {
            for per in [1u32, 7, 50] {
                f(Script {
                    cfg: Cfg::RR(b),
                    ops: vec![
                        Op::Call(sweep_cx(threads), 1),
                        Op::Par(vec![per; threads]),
                        Op::Call(sweep_cx(threads + 1), 2),
                        Op::Par(vec![per + 1; threads]),
                        Op::Call(sweep_cx(threads + 2), 3),
                    ],
                });
            }
        }
    }
    // consistent hash: every hasher, b = 1..5, requests 0..15 twice
    let hks = [HK::Const(7), HK::Ident, HK::Affine(6364136223846793005, 1442695040888963407), HK::Fnv, HK::Fold, HK::Random, HK::DefaultSip];
    for hk in &hks {
        for b in 1..=5usize {
            let mut ops: Vec<Op> = (0..16u64).map(|r| Op::Call(sweep_cx(r as usize), r)).collect();
            ops.extend((0..16u64).rev().map(|r| Op::Call(sweep_cx(r as usize + 1), r)));
            ops.push(Op::Call(sweep_cx(0), u64::MAX));
            ops.push(Op::Call(sweep_cx(1), u64::MAX));
            f(Script { cfg: Cfg::CH(b, hk.clone()), ops });
        }
    }
    // retry: every result script of length <= 4 over {Ok 1, Deadline, Server 3, Shutdown}
    let alpha = [Res::Ok(1), Res::Deadline, Res::Server(3), Res::Shutdown];
    let pols = [
        Policy::Never,
        Policy::Always,
        Policy::Err,
        Policy::ErrLt(2),
        Policy::ErrLt(3),
        Policy::Lt(3),
        Policy::Table(vec![true, false, true]),
        Policy::OkBelow(2),
    ];
    let mut scripts: Vec<Vec<Res>> = vec![vec![]];
    let mut frontier: Vec<Vec<Res>> = vec![vec![]];
    for _ in 0..4 {
        let mut next = vec![];
        for s in &frontier {
            for a in &alpha {
                let mut t = s.clone();
                t.push(a.clone());
                next.push(t);
            }
        }
        scripts.extend(next.iter().cloned());
        frontier = next;
    }
    for p in &pols {
        for (i, s) in scripts.iter().enumerate() {
            f(Script { cfg: Cfg::RT(p.clone(), 6), ops: vec![Op::RCall(sweep_cx(i), 7, s.clone())] });
        }
    }
}
