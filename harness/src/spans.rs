//! C18, part `threads`: span ids of calls made from DIFFERENT OS threads.  Every call is created
//! and first polled (that is where `Channel::call` mints the request's span) on an OS thread of
//! its own choice; the dispatch then writes the requests and the test reads them at the server end
//! of an in-memory transport.  Monitor only (freshness cannot be modelled deterministically): the
//! trace id on the wire is the caller's, the span id is neither the caller's nor one already used
//! by another request.
//!
//! Script: `x=0|c<trace>:<caller span>:<thread> ...` - calls with the same thread index are made
//! by one OS thread, in token order; threads run one after the other, in order of first mention.
use crate::exec::{coq_list, Case};
use crate::rng::Rng;
use futures::Stream;
use std::future::Future;
use std::pin::Pin;
use std::task::{Context, Poll};
use std::time::{Duration, Instant};
use tarpc::client::{self, RpcError};
use tarpc::{context, trace, ClientMessage};

pub struct Script {
    pub calls: Vec<(u64, u64, u32)>, // caller trace id, caller span id, thread
}

pub fn parse(line: &str) -> Option<Script> {
    let (_, rest) = line.trim().split_once('|')?;
    let mut calls = vec![];
    for t in rest.split_whitespace() {
        let mut it = t.strip_prefix('c')?.split(':');
        calls.push((it.next()?.parse().ok()?, it.next()?.parse().ok()?, it.next()?.parse::<u32>().ok()? % 16));
    }
    Some(Script { calls })
}

pub fn show(s: &Script) -> String {
    format!("x=0|{}", s.calls.iter().map(|(t, p, h)| format!("c{t}:{p}:{h}")).collect::<Vec<_>>().join(" "))
}

type CallFut = Pin<Box<dyn Future<Output = Result<u64, RpcError>> + Send>>;

pub fn run_impl(s: &Script) -> (Vec<String>, Vec<String>) {
    let rt = tokio::runtime::Builder::new_current_thread().enable_time().build().expect("runtime");
    let _g = rt.enter();
    let (ct, mut st) = tarpc::transport::channel::unbounded();
    let mut cfg = client::Config::default();
    cfg.max_in_flight_requests = 1000;
    cfg.pending_request_buffer = 1000;
    let nc = client::new::<u64, u64, _>(cfg, ct);
    let chan = nc.client;
    let mut dispatch = Box::pin(nc.dispatch);
    let waker = futures::task::noop_waker();
    let mut cx = Context::from_waker(&waker);
    let mut threads: Vec<u32> = vec![];
    for c in &s.calls {
        if !threads.contains(&c.2) {
            threads.push(c.2);
        }
    }
    let mut keep: Vec<CallFut> = vec![];
    for th in &threads {
        let mine: Vec<(usize, u64, u64)> =
            s.calls.iter().enumerate().filter(|(_, c)| c.2 == *th).map(|(i, c)| (i, c.0, c.1)).collect();
        let ch = chan.clone();
        let h = std::thread::spawn(move || {
            let waker = futures::task::noop_waker();
            let mut cx = Context::from_waker(&waker);
            let mut futs: Vec<CallFut> = vec![];
            for (i, tid, sid) in mine {
                let ch = ch.clone();
                let mut ctx = context::current();
                ctx.deadline = Instant::now() + Duration::from_secs(3600);
                ctx.trace_context = trace::Context {
                    trace_id: trace::TraceId::from(tid as u128),
                    span_id: trace::SpanId::from(sid),
                    sampling_decision: trace::SamplingDecision::Unsampled,
                };
                let mut f: CallFut = Box::pin(async move { ch.call(ctx, i as u64).await });
                let _ = f.as_mut().poll(&mut cx);
                futs.push(f);
            }
            futs
        });
        keep.extend(h.join().expect("caller thread"));
    }
    let mut obs: Vec<String> = vec![];
    for _ in 0..(4 * s.calls.len() + 8) {
        let _ = dispatch.as_mut().poll(&mut cx);
        while let Poll::Ready(Some(Ok(m))) = Pin::new(&mut st).poll_next(&mut cx) {
            if let ClientMessage::Request(r) = m {
                obs.push(format!(
                    "({}%N, {}%N, {}%N)",
                    r.message,
                    u128::from(r.context.trace_context.trace_id),
                    u64::from(r.context.trace_context.span_id)
                ));
            }
        }
    }
    let mut tags = vec![format!("threads:{}", threads.len().min(4))];
    if threads.len() > 1 {
        tags.push("several-threads".into());
    }
    drop(keep);
    (obs, tags)
}

pub fn to_case(s: &Script) -> Case {
    let (obs, tags) = run_impl(s);
    let ops: Vec<String> = s.calls.iter().map(|(t, p, _)| format!("({t}%N, {p}%N)")).collect();
    Case { cfg: "tt".into(), ops: coq_list(&ops), obs: coq_list(&obs), tags, nops: s.calls.len() }
}

pub fn gen(rng: &mut Rng) -> Script {
    let n = rng.range(1, 8) as usize;
    let nth = rng.range(1, 4) as u64;
    Script {
        calls: (0..n)
            .map(|_| {
                (
                    if rng.chance(1, 6) { 0 } else { 1 + rng.below(1 << 40) },
                    if rng.chance(1, 2) { 0 } else { 1 + rng.below(1 << 40) },
                    rng.below(nth) as u32,
                )
            })
            .collect(),
    }
}

pub fn sweep(mut f: impl FnMut(Script)) {
    for nth in 1..=4u32 {
        for per in 1..=3usize {
            let mut calls = vec![];
            for t in 0..nth {
                for k in 0..per {
                    calls.push((100 + t as u64, if k % 2 == 0 { 0 } else { 7 }, t));
                }
            }
            f(Script { calls });
        }
    }
}
