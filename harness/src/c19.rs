//! C19: drives the real request-hook wrappers (`serve(..)`, `.before()`, `.after()`,
//! `.before_and_after()`, `before().then(..).then_fn(..).serving(..)`) with data-driven hooks that
//! record every invocation.  The nesting of wrapper *types* is static Rust: a type-level
//! recursion instantiates every nesting of the five wrapper forms up to depth 3 (lists of length
//! 0..2 inside nestings) and chains of length 0..5 (optionally under one outer wrapper).
//!
//! The context a hook can change has two parts: the span id (u64) and the deadline.  Every script
//! runs under the harness's virtual clock, so `Instant::now()` is one fixed instant T0 for the
//! whole call and the deadline is observed exactly, as signed milliseconds relative to T0
//! (`d<=0`: the deadline has elapsed when the call is made).
//!
//! Script: `w=<letters>;c=<span>;r=<req>[;d=<deadline ms rel. T0, default 10000>]|tok tok ...`
//! letters, outermost first:
//!   B `.before(hook object)`   A `.after(closure)`   C `.before_and_after(hook object)`
//!   L `before().then(h0).then_fn(h1)....serving(s)`    M `s.before(before().then(h0)...)`
//! tokens (any order, any subset; a missing hook is a no-op hook, so deleting tokens keeps the
//! script valid):
//!   <slot>b<id>,<ceff>,<feff>[,<deff>]   before-hook of wrapper <slot> (0 = outermost); L/M take
//!                               all of them in order, B/C the first
//!   <slot>a<id>,<ceff>,<reff>[,<deff>]   after-hook of wrapper <slot> (A/C)
//!   h<id>,<heff>                the handler
//!   ceff (span id): k | s<v> | a<d>      deff (deadline): k | d<ms rel. T0, signed>
//!   feff: n | f<e> | g<t>:<e> | q<q>:<e> | t<e> (fail if the deadline given has elapsed)
//!   reff: k | o<v> | e<e> | m<d> | r<v> | x<e> | c | d (Ok(deadline seen))
//!   heff: p<d> | e<e> | c | d
use crate::exec::{coq_list, Case};
use crate::rng::Rng;
use futures::future::{self, Ready};
use std::cell::RefCell;
use std::collections::BTreeSet;
use std::future::Future;
use std::io;
use std::pin::Pin;
use std::rc::Rc;
use std::time::{Duration, Instant};
use tarpc::context::{self, Context};
use tarpc::server::request_hook::{
    before, AfterRequest, BeforeRequest, BeforeRequestList, RequestHook,
};
use tarpc::server::{serve, Serve};
use tarpc::trace::SpanId;
use tarpc::ServerError;

#[derive(Clone, Debug, PartialEq)]
pub enum CEff {
    Keep,
    Set(u64),
    Add(u64),
}
#[derive(Clone, Debug, PartialEq)]
pub enum DEff {
    Keep,
    Set(i64),
}
#[derive(Clone, Debug, PartialEq)]
pub enum FEff {
    No,
    Fail(u64),
    CtxGe(u64, u64),
    ReqEq(u64, u64),
    Expired(u64),
}
#[derive(Clone, Debug, PartialEq)]
pub enum REff {
    Keep,
    SetOk(u64),
    SetErr(u64),
    MapOk(u64),
    Recover(u64),
    FailOk(u64),
    Ctx,
    Dl,
}
#[derive(Clone, Debug, PartialEq)]
pub enum HEff {
    Plus(u64),
    Err(u64),
    Ctx,
    Dl,
}
#[derive(Clone, Debug, PartialEq)]
pub struct BSpec {
    pub id: u32,
    pub ce: CEff,
    pub fe: FEff,
    pub de: DEff,
}
#[derive(Clone, Debug, PartialEq)]
pub struct ASpec {
    pub id: u32,
    pub ce: CEff,
    pub re: REff,
    pub de: DEff,
}
#[derive(Clone, Debug, PartialEq)]
pub enum Tok {
    B(usize, BSpec),
    A(usize, ASpec),
    H(u32, HEff),
}
#[derive(Clone, Debug)]
pub struct Script {
    pub shape: Vec<char>,
    pub ctx: u64,
    pub req: u64,
    pub dl: i64,
    pub toks: Vec<Tok>,
}
const DL_MAX: i64 = 900_000_000;

// ------------------------------------------------------------------------------ text format
fn show_ce(c: &CEff) -> String {
    match c {
        CEff::Keep => "k".into(),
        CEff::Set(v) => format!("s{v}"),
        CEff::Add(d) => format!("a{d}"),
    }
}
fn show_fe(f: &FEff) -> String {
    match f {
        FEff::No => "n".into(),
        FEff::Fail(e) => format!("f{e}"),
        FEff::CtxGe(t, e) => format!("g{t}:{e}"),
        FEff::ReqEq(q, e) => format!("q{q}:{e}"),
        FEff::Expired(e) => format!("t{e}"),
    }
}
fn show_de(d: &DEff) -> String {
    match d {
        DEff::Keep => String::new(),
        DEff::Set(k) => format!(",d{k}"),
    }
}
fn show_re(r: &REff) -> String {
    match r {
        REff::Keep => "k".into(),
        REff::SetOk(v) => format!("o{v}"),
        REff::SetErr(e) => format!("e{e}"),
        REff::MapOk(d) => format!("m{d}"),
        REff::Recover(v) => format!("r{v}"),
        REff::FailOk(e) => format!("x{e}"),
        REff::Ctx => "c".into(),
        REff::Dl => "d".into(),
    }
}
fn show_he(h: &HEff) -> String {
    match h {
        HEff::Plus(d) => format!("p{d}"),
        HEff::Err(e) => format!("e{e}"),
        HEff::Ctx => "c".into(),
        HEff::Dl => "d".into(),
    }
}
pub fn show(s: &Script) -> String {
    let toks: Vec<String> = s
        .toks
        .iter()
        .map(|t| match t {
            Tok::B(sl, b) => {
                format!("{sl}b{},{},{}{}", b.id, show_ce(&b.ce), show_fe(&b.fe), show_de(&b.de))
            }
            Tok::A(sl, a) => {
                format!("{sl}a{},{},{}{}", a.id, show_ce(&a.ce), show_re(&a.re), show_de(&a.de))
            }
            Tok::H(id, h) => format!("h{id},{}", show_he(h)),
        })
        .collect();
    let w: String = s.shape.iter().collect();
    let d = if s.dl == 10_000 { String::new() } else { format!(";d={}", s.dl) };
    format!("w={w};c={};r={}{d}|{}", s.ctx, s.req, toks.join(" "))
}

fn num(s: &str) -> Option<u64> {
    s.parse().ok()
}
fn two(s: &str) -> Option<(u64, u64)> {
    let (a, b) = s.split_once(':')?;
    Some((num(a)?, num(b)?))
}
fn parse_ce(s: &str) -> Option<CEff> {
    let (h, a) = s.split_at(1.min(s.len()));
    Some(match h {
        "k" => CEff::Keep,
        "s" => CEff::Set(num(a)?),
        "a" => CEff::Add(num(a)?),
        _ => return None,
    })
}
fn parse_fe(s: &str) -> Option<FEff> {
    let (h, a) = s.split_at(1.min(s.len()));
    Some(match h {
        "n" => FEff::No,
        "f" => FEff::Fail(num(a)?),
        "g" => {
            let (t, e) = two(a)?;
            FEff::CtxGe(t, e)
        }
        "q" => {
            let (q, e) = two(a)?;
            FEff::ReqEq(q, e)
        }
        "t" => FEff::Expired(num(a)?),
        _ => return None,
    })
}
fn parse_de(s: &str) -> Option<DEff> {
    let (h, a) = s.split_at(1.min(s.len()));
    Some(match h {
        "k" => DEff::Keep,
        "d" => DEff::Set(a.parse::<i64>().ok()?.clamp(-DL_MAX, DL_MAX)),
        _ => return None,
    })
}
fn parse_re(s: &str) -> Option<REff> {
    let (h, a) = s.split_at(1.min(s.len()));
    Some(match h {
        "k" => REff::Keep,
        "o" => REff::SetOk(num(a)?),
        "e" => REff::SetErr(num(a)?),
        "m" => REff::MapOk(num(a)?),
        "r" => REff::Recover(num(a)?),
        "x" => REff::FailOk(num(a)?),
        "c" => REff::Ctx,
        "d" => REff::Dl,
        _ => return None,
    })
}
fn parse_he(s: &str) -> Option<HEff> {
    let (h, a) = s.split_at(1.min(s.len()));
    Some(match h {
        "p" => HEff::Plus(num(a)?),
        "e" => HEff::Err(num(a)?),
        "c" => HEff::Ctx,
        "d" => HEff::Dl,
        _ => return None,
    })
}
pub fn parse(line: &str) -> Option<Script> {
    let (cfg, rest) = line.trim().split_once('|')?;
    let mut shape = vec![];
    let (mut ctx, mut req, mut dl) = (0u64, 0u64, 10_000i64);
    for part in cfg.split(';') {
        let (k, v) = part.trim().split_once('=')?;
        match k {
            "w" => shape = v.chars().filter(|c| "BACLM".contains(*c)).take(3).collect(),
            "c" => ctx = num(v)?,
            "r" => req = num(v)?,
            "d" => dl = v.parse::<i64>().ok()?.clamp(-DL_MAX, DL_MAX),
            _ => return None,
        }
    }
    let mut toks = vec![];
    for t in rest.split_whitespace() {
        if let Some(r) = t.strip_prefix('h') {
            let (id, e) = r.split_once(',')?;
            toks.push(Tok::H(id.parse().ok()?, parse_he(e)?));
            continue;
        }
        let slot = t.get(0..1)?.parse::<usize>().ok()?;
        let kind = t.get(1..2)?;
        let f: Vec<&str> = t.get(2..)?.split(',').collect();
        if f.len() != 3 && f.len() != 4 {
            return None;
        }
        let id: u32 = f[0].parse().ok()?;
        let de = if f.len() == 4 { parse_de(f[3])? } else { DEff::Keep };
        match kind {
            "b" => toks.push(Tok::B(slot, BSpec { id, ce: parse_ce(f[1])?, fe: parse_fe(f[2])?, de })),
            "a" => toks.push(Tok::A(slot, ASpec { id, ce: parse_ce(f[1])?, re: parse_re(f[2])?, de })),
            _ => return None,
        }
    }
    Some(Script { shape, ctx, req, dl, toks })
}

// ------------------------------------------------------------------------------ Coq terms
fn coq_ce(c: &CEff) -> String {
    match c {
        CEff::Keep => "CKeep".into(),
        CEff::Set(v) => format!("(CSet {v})"),
        CEff::Add(d) => format!("(CAdd {d})"),
    }
}
fn coq_fe(f: &FEff) -> String {
    match f {
        FEff::No => "FNo".into(),
        FEff::Fail(e) => format!("(FFail {e})"),
        FEff::CtxGe(t, e) => format!("(FCtxGe {t} {e})"),
        FEff::ReqEq(q, e) => format!("(FReqEq {q} {e})"),
        FEff::Expired(e) => format!("(FExpired {e})"),
    }
}
fn coq_de(d: &DEff) -> String {
    match d {
        DEff::Keep => "DKeep".into(),
        DEff::Set(k) => format!("(DSet ({k})%Z)"),
    }
}
fn coq_ctx(c: (u64, i64)) -> String {
    format!("({}, ({})%Z)", c.0, c.1)
}
fn enc_dl(d: i64) -> u64 {
    (d + 1_000_000_000_000) as u64
}
fn coq_re(r: &REff) -> String {
    match r {
        REff::Keep => "RKeep".into(),
        REff::SetOk(v) => format!("(RSet (ROk {v}))"),
        REff::SetErr(e) => format!("(RSet (RErr {e}))"),
        REff::MapOk(d) => format!("(RMapOk {d})"),
        REff::Recover(v) => format!("(RRecover {v})"),
        REff::FailOk(e) => format!("(RFailOk {e})"),
        REff::Ctx => "RCtx".into(),
        REff::Dl => "RDl".into(),
    }
}
fn coq_he(h: &HEff) -> String {
    match h {
        HEff::Plus(d) => format!("(HPlus {d})"),
        HEff::Err(e) => format!("(HErr {e})"),
        HEff::Ctx => "HCtx".into(),
        HEff::Dl => "HDl".into(),
    }
}
fn coq_b(b: &BSpec) -> String {
    format!(
        "{{| b_id := {}; b_ceff := {}; b_deff := {}; b_feff := {} |}}",
        b.id,
        coq_ce(&b.ce),
        coq_de(&b.de),
        coq_fe(&b.fe)
    )
}
fn coq_a(a: &ASpec) -> String {
    format!(
        "{{| a_id := {}; a_ceff := {}; a_deff := {}; a_reff := {} |}}",
        a.id,
        coq_ce(&a.ce),
        coq_de(&a.de),
        coq_re(&a.re)
    )
}
fn coq_res(r: &Result<u64, ServerError>) -> String {
    match r {
        Ok(v) => format!("(ROk {v})"),
        Err(e) => format!("(RErr {})", e.detail.parse::<u64>().unwrap_or(999_999_999)),
    }
}

// ------------------------------------------------------------------------------ the hooks
#[derive(Clone)]
pub struct Env {
    log: Rc<RefCell<Vec<String>>>,
    tags: Rc<RefCell<BTreeSet<String>>>,
    /// (hook id, deadline it left, whether it failed) for every before-hook that ran
    ran: Rc<RefCell<Vec<(u32, i64, bool)>>>,
    /// the instant the call is made; `Instant::now()` stays here (virtual clock)
    t0: Instant,
}
impl Env {
    fn tag(&self, t: &str) {
        self.tags.borrow_mut().insert(t.into());
    }
}

fn instant_at(t0: Instant, ms: i64) -> Instant {
    if ms >= 0 {
        t0 + Duration::from_millis(ms as u64)
    } else {
        t0 - Duration::from_millis(ms.unsigned_abs())
    }
}
/// (span id, deadline in signed ms relative to T0): exact, because T0 is fixed
fn get_ctx(c: &Context, env: &Env) -> (u64, i64) {
    let dl = if c.deadline >= env.t0 {
        (c.deadline - env.t0).as_millis() as i64
    } else {
        -((env.t0 - c.deadline).as_millis() as i64)
    };
    (u64::from(c.trace_context.span_id), dl)
}
fn apply_ce(e: &CEff, d: &DEff, c: &mut Context, env: &Env) {
    let (old, old_dl) = get_ctx(c, env);
    let new = match e {
        CEff::Keep => old,
        CEff::Set(v) => *v,
        CEff::Add(d) => old.wrapping_add(*d),
    };
    if new != old {
        env.tag("ctx-mutated");
    }
    c.trace_context.span_id = SpanId::from(new);
    if let DEff::Set(k) = d {
        if *k != old_dl {
            env.tag("deadline-mutated");
        }
        c.deadline = instant_at(env.t0, *k);
    }
}
fn err(code: u64) -> ServerError {
    ServerError::new(io::ErrorKind::Other, code.to_string())
}

fn before_impl(s: &BSpec, env: &Env, ctx: &mut Context, req: &u64) -> Result<(), ServerError> {
    let seen = get_ctx(ctx, env);
    env.log.borrow_mut().push(format!("EBefore {} {} {}", s.id, coq_ctx(seen), req));
    apply_ce(&s.ce, &s.de, ctx, env);
    let fail = match s.fe {
        FEff::No => None,
        FEff::Fail(e) => Some(e),
        FEff::CtxGe(t, e) => (seen.0 >= t).then_some(e),
        FEff::ReqEq(q, e) => (*req == q).then_some(e),
        FEff::Expired(e) => (seen.1 <= 0).then_some(e),
    };
    env.ran.borrow_mut().push((s.id, get_ctx(ctx, env).1, fail.is_some()));
    match fail {
        Some(e) => {
            env.tag("before-failed");
            Err(err(e))
        }
        None => Ok(()),
    }
}

fn after_impl(s: &ASpec, env: &Env, ctx: &mut Context, resp: &mut Result<u64, ServerError>) {
    let seen = get_ctx(ctx, env);
    let shown = coq_res(resp);
    env.log.borrow_mut().push(format!("EAfter {} {} {}", s.id, coq_ctx(seen), shown));
    if resp.is_err() {
        env.tag("after-saw-error");
    }
    apply_ce(&s.ce, &s.de, ctx, env);
    let new: Result<u64, ServerError> = match (&s.re, &*resp) {
        (REff::Keep, _) => return,
        (REff::SetOk(v), _) => Ok(*v),
        (REff::SetErr(e), _) => Err(err(*e)),
        (REff::MapOk(d), Ok(v)) => Ok(v.wrapping_add(*d)),
        (REff::MapOk(_), Err(_)) => return,
        (REff::Recover(v), Err(_)) => Ok(*v),
        (REff::Recover(_), Ok(_)) => return,
        (REff::FailOk(e), Ok(_)) => Err(err(*e)),
        (REff::FailOk(_), Err(_)) => return,
        (REff::Ctx, _) => Ok(seen.0),
        (REff::Dl, _) => Ok(enc_dl(seen.1)),
    };
    if coq_res(&new) != shown {
        env.tag("after-rewrote-result");
    }
    *resp = new;
}

/// A hook object: `BeforeRequest` and `AfterRequest` through the traits' own `async fn`s.
struct Hook {
    b: BSpec,
    a: ASpec,
    env: Env,
}
impl BeforeRequest<u64> for Hook {
    async fn before(&mut self, ctx: &mut Context, req: &u64) -> Result<(), ServerError> {
        before_impl(&self.b, &self.env, ctx, req)
    }
}
impl AfterRequest<u64> for Hook {
    async fn after(&mut self, ctx: &mut Context, resp: &mut Result<u64, ServerError>) {
        after_impl(&self.a, &self.env, ctx, resp)
    }
}
fn bobj(b: &BSpec, env: &Env) -> Hook {
    Hook {
        b: b.clone(),
        a: ASpec { id: 0, ce: CEff::Keep, re: REff::Keep, de: DEff::Keep },
        env: env.clone(),
    }
}
/// A before-hook given as a closure (the blanket `impl BeforeRequest for FnMut`).
fn bfn(
    b: &BSpec,
    env: &Env,
) -> impl FnMut(&mut Context, &u64) -> Ready<Result<(), ServerError>> + 'static {
    let (b, env) = (b.clone(), env.clone());
    move |ctx: &mut Context, req: &u64| future::ready(before_impl(&b, &env, ctx, req))
}
/// An after-hook given as a closure (the blanket `impl AfterRequest for FnMut`).
fn afn(
    a: &ASpec,
    env: &Env,
) -> impl FnMut(&mut Context, &mut Result<u64, ServerError>) -> Ready<()> + 'static {
    let (a, env) = (a.clone(), env.clone());
    move |ctx: &mut Context, resp: &mut Result<u64, ServerError>| {
        after_impl(&a, &env, ctx, resp);
        future::ready(())
    }
}

// ------------------------------------------------------------------------------ static nesting
/// One wrapper of the composition, innermost first when handed to `Level::build`.
#[derive(Clone, Debug)]
pub struct Slot {
    kind: char,
    befores: Vec<BSpec>,
    after: ASpec,
}
type Fut = Pin<Box<dyn Future<Output = Result<u64, ServerError>>>>;
pub struct Built {
    fut: Fut,
    term: String,
}
struct Call {
    ctx: Context,
    req: u64,
    env: Env,
}

fn finish<S: Serve<Req = u64, Resp = u64> + 'static>(s: S, term: String, call: &Call) -> Built {
    Built { fut: Box::pin(s.serve(call.ctx, call.req)), term }
}

trait Level {
    fn build<S: Serve<Req = u64, Resp = u64> + 'static>(
        s: S,
        term: String,
        slots: &[Slot],
        call: &Call,
    ) -> Built;
}
struct L0;
impl Level for L0 {
    fn build<S: Serve<Req = u64, Resp = u64> + 'static>(
        s: S,
        term: String,
        _: &[Slot],
        call: &Call,
    ) -> Built {
        finish(s, term, call)
    }
}

fn list_term(hs: &[BSpec]) -> String {
    let mut t = String::from("BNil");
    for h in hs {
        t = format!("(then_ {t} {})", coq_b(h));
    }
    t
}

/// `$l` is bound to the real list `before().then(h0).then_fn(h1)...` of the given length (every
/// length is its own Rust type) and `$body` is instantiated once per length.
macro_rules! with_list {
    (short, $hs:expr, $env:expr, $l:ident => $body:expr) => {
        match $hs.len() {
            0 => { let $l = before(); $body }
            1 => { let $l = before().then(bobj(&$hs[0], $env)); $body }
            _ => { let $l = before().then(bobj(&$hs[0], $env)).then_fn(bfn(&$hs[1], $env)); $body }
        }
    };
    (long, $hs:expr, $env:expr, $l:ident => $body:expr) => {
        match $hs.len() {
            0 => { let $l = before(); $body }
            1 => { let $l = before().then_fn(bfn(&$hs[0], $env)); $body }
            2 => { let $l = before().then(bobj(&$hs[0], $env)).then_fn(bfn(&$hs[1], $env)); $body }
            3 => {
                let $l = before().then_fn(bfn(&$hs[0], $env)).then(bobj(&$hs[1], $env))
                    .then_fn(bfn(&$hs[2], $env));
                $body
            }
            4 => {
                let $l = before().then(bobj(&$hs[0], $env)).then_fn(bfn(&$hs[1], $env))
                    .then(bobj(&$hs[2], $env)).then_fn(bfn(&$hs[3], $env));
                $body
            }
            _ => {
                let $l = before().then_fn(bfn(&$hs[0], $env)).then(bobj(&$hs[1], $env))
                    .then_fn(bfn(&$hs[2], $env)).then(bobj(&$hs[3], $env))
                    .then_fn(bfn(&$hs[4], $env));
                $body
            }
        }
    };
}

macro_rules! level {
    ($name:ident, $next:ty, $lists:ident, $maxl:expr) => {
        struct $name;
        impl Level for $name {
            fn build<S: Serve<Req = u64, Resp = u64> + 'static>(
                s: S,
                term: String,
                slots: &[Slot],
                call: &Call,
            ) -> Built {
                let Some(slot) = slots.first() else { return finish(s, term, call) };
                let rest = &slots[1..];
                let env = &call.env;
                let b0 = slot.befores.first().cloned().unwrap_or(BSpec {
                    id: 90,
                    ce: CEff::Keep,
                    fe: FEff::No,
                    de: DEff::Keep,
                });
                match slot.kind {
                    'B' => <$next>::build(
                        s.before(bobj(&b0, env)),
                        format!("(Before {} {term})", coq_b(&b0)),
                        rest,
                        call,
                    ),
                    'A' => <$next>::build(
                        s.after(afn(&slot.after, env)),
                        format!("(After {term} {})", coq_a(&slot.after)),
                        rest,
                        call,
                    ),
                    'C' => <$next>::build(
                        s.before_and_after(Hook { b: b0.clone(), a: slot.after.clone(), env: env.clone() }),
                        format!(
                            "(BeforeAfter {{| ba_b := {}; ba_a := {} |}} {term})",
                            coq_b(&b0),
                            coq_a(&slot.after)
                        ),
                        rest,
                        call,
                    ),
                    'L' => {
                        let hs = &slot.befores[..slot.befores.len().min($maxl)];
                        let t = format!("(serving {} {term})", list_term(hs));
                        with_list!($lists, hs, env, l => <$next>::build(l.serving(s), t, rest, call))
                    }
                    _ => {
                        let hs = &slot.befores[..slot.befores.len().min($maxl)];
                        let t = format!("(BeforeList {} {term})", list_term(hs));
                        with_list!($lists, hs, env, l => <$next>::build(s.before(l), t, rest, call))
                    }
                }
            }
        }
    };
}
// every nesting of B/A/C/L/M up to depth 3, lists of length 0..2
level!(N1, L0, short, 2);
level!(N2, N1, short, 2);
level!(N3, N2, short, 2);
// chains of length 0..5 directly on the handler, optionally under one more wrapper
level!(K1, L0, long, 5);
level!(K2, K1, long, 5);

/// Resolves the tokens against the shape; slots are returned outermost first.
pub fn slots_of(s: &Script) -> Vec<Slot> {
    s.shape
        .iter()
        .enumerate()
        .map(|(i, &kind)| {
            let befores: Vec<BSpec> = s
                .toks
                .iter()
                .filter_map(|t| match t {
                    Tok::B(sl, b) if *sl == i => Some(b.clone()),
                    _ => None,
                })
                .collect();
            let after = s
                .toks
                .iter()
                .find_map(|t| match t {
                    Tok::A(sl, a) if *sl == i => Some(a.clone()),
                    _ => None,
                })
                .unwrap_or(ASpec { id: 95, ce: CEff::Keep, re: REff::Keep, de: DEff::Keep });
            let befores = match kind {
                'B' | 'C' => befores.into_iter().take(1).collect(),
                'A' => vec![],
                _ => befores,
            };
            Slot { kind, befores, after }
        })
        .collect()
}

pub fn to_case(s: &Script) -> Case {
    // virtual clock: Instant::now() is one fixed instant for the whole script
    crate::vclock::reset();
    let env = Env {
        log: Default::default(),
        tags: Default::default(),
        ran: Default::default(),
        t0: Instant::now(),
    };
    let (hid, heff) = s
        .toks
        .iter()
        .find_map(|t| match t {
            Tok::H(id, h) => Some((*id, h.clone())),
            _ => None,
        })
        .unwrap_or((0, HEff::Plus(0)));
    let mut ctx = context::current();
    ctx.trace_context.span_id = SpanId::from(s.ctx);
    ctx.deadline = instant_at(env.t0, s.dl);
    let call = Call { ctx, req: s.req, env: env.clone() };
    let slots = slots_of(s);
    let mut inner_first = slots.clone();
    inner_first.reverse();
    // the chain family is used when a list longer than the nest family's limit is asked for
    let long = slots.iter().any(|sl| "LM".contains(sl.kind) && sl.befores.len() > 2);
    let chain_ok = slots.len() <= 2
        && slots.last().map_or(true, |sl| "LM".contains(sl.kind))
        && (slots.len() < 2 || "BAC".contains(slots[0].kind));
    let henv = env.clone();
    let he = heff.clone();
    let base = serve(move |c: Context, r: u64| {
        let seen = get_ctx(&c, &henv);
        henv.log.borrow_mut().push(format!("EHandler {} {} {}", hid, coq_ctx(seen), r));
        future::ready(match he {
            HEff::Plus(d) => Ok(r.wrapping_add(d)),
            HEff::Err(e) => Err(err(e)),
            HEff::Ctx => Ok(seen.0),
            HEff::Dl => Ok(enc_dl(seen.1)),
        })
    });
    let base_term = format!("(Base {{| h_id := {hid}; h_eff := {} |}})", coq_he(&heff));
    let built = if long && chain_ok {
        env.tag("family-chain");
        K2::build(base, base_term, &inner_first, &call)
    } else {
        env.tag("family-nest");
        N3::build(base, base_term, &inner_first, &call)
    };
    let Built { fut, term } = built;
    let res = std::panic::catch_unwind(std::panic::AssertUnwindSafe(|| {
        futures::executor::block_on(fut)
    }));
    let res_term = match &res {
        Ok(r) => coq_res(r),
        Err(_) => {
            env.tag("panic");
            "(RErr 888888888)".to_string()
        }
    };
    // scenario tags
    env.tag(&format!("depth{}", slots.len()));
    for sl in &slots {
        if "LM".contains(sl.kind) {
            env.tag(&format!("chain-len{}", sl.befores.len().min(5)));
        }
    }
    let events = env.log.borrow().clone();
    let nb = events.iter().filter(|e| e.starts_with("EBefore")).count();
    let nbefore_total: usize = slots.iter().map(|s| s.befores.len().max(("BC".contains(s.kind)) as usize)).sum();
    if env.tags.borrow().contains("before-failed") {
        if nb < nbefore_total {
            env.tag("failure-skipped-later-hooks");
        }
        if nb > 1 {
            env.tag("failure-after-earlier-hooks");
        }
        if !events.iter().any(|e| e.starts_with("EHandler")) {
            env.tag("handler-skipped");
        }
    }
    // deadline scenarios: inside a list (L/M), a hook returned Ok leaving an elapsed deadline and
    // the list went on to its next hook; and, on top of that, a later hook of that list failed
    if s.dl <= 0 {
        env.tag("call-with-elapsed-deadline");
    }
    {
        let ran = env.ran.borrow();
        let find = |id: u32| ran.iter().find(|x| x.0 == id).cloned();
        for sl in slots.iter().filter(|sl| "LM".contains(sl.kind)) {
            for (i, h) in sl.befores.iter().enumerate() {
                let Some((_, dl_left, failed)) = find(h.id) else { continue };
                if failed || dl_left > 0 || i + 1 >= sl.befores.len() {
                    continue;
                }
                if find(sl.befores[i + 1].id).is_some() {
                    env.tag("list-continued-with-elapsed-deadline");
                    if sl.befores[i + 1..].iter().any(|l| find(l.id).map_or(false, |x| x.2)) {
                        env.tag("elapsed-deadline+list+later-hook-failed");
                    }
                }
            }
        }
    }
    let tags: Vec<String> = env.tags.borrow().iter().cloned().collect();
    Case {
        cfg: format!("({term}, {}, {})", coq_ctx((s.ctx, s.dl)), s.req),
        ops: "[]".into(),
        obs: format!("({}, {})", coq_list(&events), res_term),
        tags,
        nops: s.toks.len() + s.shape.len(),
    }
}

// ------------------------------------------------------------------------------ generation
fn gen_ce(rng: &mut Rng) -> CEff {
    match rng.weighted(&[3, 3, 5, 1]) {
        0 => CEff::Keep,
        1 => CEff::Set(rng.below(50)),
        2 => CEff::Add(rng.range(1, 9)),
        _ => CEff::Add(u64::MAX - rng.below(3)),
    }
}
fn gen_re(rng: &mut Rng) -> REff {
    match rng.weighted(&[3, 2, 2, 3, 3, 2, 2, 1]) {
        0 => REff::Keep,
        1 => REff::SetOk(rng.below(100)),
        2 => REff::SetErr(rng.range(1, 99)),
        3 => REff::MapOk(rng.range(1, 9)),
        4 => REff::Recover(rng.below(100)),
        5 => REff::FailOk(rng.range(1, 99)),
        6 => REff::Ctx,
        _ => REff::Dl,
    }
}
fn gen_fail(rng: &mut Rng, ctx: u64, req: u64) -> FEff {
    let e = rng.range(1, 99);
    match rng.weighted(&[5, 2, 2, 1]) {
        0 => FEff::Fail(e),
        1 => FEff::CtxGe(ctx.wrapping_add(rng.below(12)), e),
        2 => FEff::ReqEq(if rng.chance(2, 3) { req } else { req.wrapping_add(1) }, e),
        _ => FEff::Expired(e),
    }
}

/// Random compositions: half from the nest family (depth 0..3), half chains of length 0..5
/// under an optional outer wrapper, with the failing position swept by the generator.
/// Deadline modes: 45% the call has a live deadline and hooks rarely touch it; 30% the call
/// arrives with an elapsed deadline (-60 s, -1 ms or exactly now); 25% one of the earlier
/// before-hooks moves the deadline to now / the past.  In the last two modes chains have at
/// least two hooks and, in 70% of the scripts, a hook *after* the first one fails.
pub fn gen(rng: &mut Rng) -> Script {
    let mode = rng.weighted(&[45, 30, 25]);
    let past = |rng: &mut Rng| *rng.pick(&[-60_000i64, -1, 0, -3_600_000]);
    let future = |rng: &mut Rng| *rng.pick(&[1i64, 5_000, 120_000, 10_000]);
    let dl = match mode {
        1 => past(rng),
        _ => {
            if rng.chance(1, 2) {
                10_000
            } else {
                future(rng)
            }
        }
    };
    let ctx = if rng.chance(1, 8) { u64::MAX - rng.below(4) } else { rng.below(20) };
    let req = if rng.chance(1, 10) { u64::MAX - rng.below(3) } else { rng.below(30) };
    let letters = ['B', 'A', 'C', 'L', 'M'];
    let mut shape = vec![];
    let chain = rng.chance(1, 2);
    let mut lens = vec![];
    if chain {
        if rng.chance(2, 3) {
            shape.push(*rng.pick(&letters[..3]));
            lens.push(1);
        }
        shape.push(*rng.pick(&letters[3..]));
        lens.push(rng.range(if mode == 0 { 0 } else { 2 }, 5) as usize);
    } else {
        let depth = rng.weighted(&[1, 3, 6, 10]);
        for _ in 0..depth {
            let l = *rng.pick(&letters);
            shape.push(l);
            lens.push(if "LM".contains(l) { rng.range(if mode == 0 { 0 } else { 1 }, 2) as usize } else { 1 });
        }
    }
    // which before-hook (in script order) fails, if any
    let nb: usize = shape.iter().zip(&lens).map(|(k, n)| if *k == 'A' { 0 } else { *n }).sum();
    let failing = if mode != 0 && nb >= 2 && rng.chance(7, 10) {
        Some(rng.range(1, nb as u64 - 1) as usize)
    } else if nb > 0 && rng.chance(3, 5) {
        Some(rng.below(nb as u64) as usize)
    } else {
        None
    };
    // mode 2: which before-hook moves the deadline to now / the past (an early one)
    let setter = if mode == 2 && nb > 0 { Some(rng.below((nb as u64 - 1).max(1)) as usize) } else { None };
    let mut toks = vec![];
    let mut id = 1u32;
    let mut bi = 0usize;
    for (slot, (k, n)) in shape.iter().zip(&lens).enumerate() {
        if *k != 'A' {
            for _ in 0..*n {
                let fe = if Some(bi) == failing {
                    gen_fail(rng, ctx, req)
                } else if rng.chance(1, 12) {
                    gen_fail(rng, ctx, req)
                } else {
                    FEff::No
                };
                let de = if Some(bi) == setter {
                    DEff::Set(past(rng))
                } else {
                    match mode {
                        0 if rng.chance(1, 12) => DEff::Set(if rng.chance(1, 2) { past(rng) } else { future(rng) }),
                        1 | 2 if rng.chance(1, 8) => DEff::Set(future(rng)),
                        1 | 2 if rng.chance(1, 10) => DEff::Set(past(rng)),
                        _ => DEff::Keep,
                    }
                };
                toks.push(Tok::B(slot, BSpec { id, ce: gen_ce(rng), fe, de }));
                id += 1;
                bi += 1;
            }
        }
        if *k == 'A' || *k == 'C' {
            let de = if rng.chance(1, 8) { DEff::Set(past(rng)) } else { DEff::Keep };
            toks.push(Tok::A(slot, ASpec { id, ce: gen_ce(rng), re: gen_re(rng), de }));
            id += 1;
        }
    }
    let he = match rng.weighted(&[5, 2, 3, 2]) {
        0 => HEff::Plus(rng.below(5)),
        1 => HEff::Err(rng.range(1, 99)),
        2 => HEff::Ctx,
        _ => HEff::Dl,
    };
    toks.push(Tok::H(0, he));
    // occasionally drop a token (default hooks) or shuffle two tokens of different slots
    if rng.chance(1, 10) && !toks.is_empty() {
        let i = rng.below(toks.len() as u64) as usize;
        toks.remove(i);
    }
    Script { shape, ctx, req, dl, toks }
}

/// Bounded-exhaustive family (thorough tier):
///  * every nesting of B/A/C/L/M of depth 0..3 (156 shapes), with no failure and with each
///    before-hook failing in turn, after-hooks alternately rewriting and recovering;
///  * chains of length 0..5 (both L and M forms) under no/each outer wrapper, with every
///    failing position, each hook adding a distinct amount to the context.
pub fn sweep(mut f: impl FnMut(Script)) {
    let letters = ['B', 'A', 'C', 'L', 'M'];
    let mut shapes: Vec<Vec<char>> = vec![vec![]];
    let mut frontier: Vec<Vec<char>> = vec![vec![]];
    for _ in 0..3 {
        let mut next = vec![];
        for s in &frontier {
            for l in letters {
                let mut t = s.clone();
                t.push(l);
                next.push(t);
            }
        }
        shapes.extend(next.iter().cloned());
        frontier = next;
    }
    // dl0: deadline of the call; setter: the before-hook that moves the deadline to exactly now
    let mk = |shape: &Vec<char>, lens: &Vec<usize>, failing: Option<usize>, variant: u64, dl0: i64, setter: Option<usize>| {
        let mut toks = vec![];
        let mut id = 1u32;
        let mut bi = 0usize;
        for (slot, (k, n)) in shape.iter().zip(lens).enumerate() {
            if *k != 'A' {
                for _ in 0..*n {
                    let fe = if Some(bi) == failing { FEff::Fail(40 + bi as u64) } else { FEff::No };
                    let de = if Some(bi) == setter { DEff::Set(0) } else { DEff::Keep };
                    toks.push(Tok::B(slot, BSpec { id, ce: CEff::Add(1 << bi), fe, de }));
                    id += 1;
                    bi += 1;
                }
            }
            if *k == 'A' || *k == 'C' {
                let re = match (slot as u64 + variant) % 3 {
                    0 => REff::MapOk(100),
                    1 => REff::Recover(7),
                    _ => REff::Ctx,
                };
                toks.push(Tok::A(slot, ASpec { id, ce: CEff::Add(1000), re, de: DEff::Keep }));
                id += 1;
            }
        }
        toks.push(Tok::H(0, match variant % 3 { 0 => HEff::Ctx, 1 => HEff::Plus(1), _ => HEff::Dl }));
        Script { shape: shape.clone(), ctx: 0, req: 5, dl: dl0, toks }
    };
    for shape in &shapes {
        let lens: Vec<usize> = shape.iter().map(|k| if "LM".contains(*k) { 2 } else { 1 }).collect();
        let nb: usize = shape.iter().zip(&lens).map(|(k, n)| if *k == 'A' { 0 } else { *n }).sum();
        for variant in 0..2 {
            f(mk(shape, &lens, None, variant, 10_000, None));
        }
        // the same nesting called with an elapsed deadline
        f(mk(shape, &lens, None, 2, -60_000, None));
        for fail in 0..nb {
            f(mk(shape, &lens, Some(fail), fail as u64, 10_000, None));
            f(mk(shape, &lens, Some(fail), fail as u64, if fail % 2 == 0 { 0 } else { -60_000 }, None));
        }
    }
    for outer in [None, Some('B'), Some('A'), Some('C')] {
        for form in ['L', 'M'] {
            for len in 0..=5usize {
                let mut shape = vec![];
                let mut lens = vec![];
                if let Some(o) = outer {
                    shape.push(o);
                    lens.push(1);
                }
                shape.push(form);
                lens.push(len);
                let nb: usize = shape.iter().zip(&lens).map(|(k, n)| if *k == 'A' { 0 } else { *n }).sum();
                f(mk(&shape, &lens, None, len as u64, 10_000, None));
                for fail in 0..nb {
                    f(mk(&shape, &lens, Some(fail), fail as u64, 10_000, None));
                }
                // elapsed deadlines: the call arrives expired (-60 s, exactly now), or hook
                // `set` of the chain moves a live deadline to now; no failure and every failing
                // position
                for dl0 in [-60_000i64, 0] {
                    f(mk(&shape, &lens, None, 2, dl0, None));
                    for fail in 0..nb {
                        f(mk(&shape, &lens, Some(fail), 2, dl0, None));
                    }
                }
                for set in 0..nb {
                    f(mk(&shape, &lens, None, 2, 10_000, Some(set)));
                    for fail in set + 1..nb {
                        f(mk(&shape, &lens, Some(fail), 2, 10_000, Some(set)));
                    }
                }
            }
        }
    }
}
