//! C15, part `sock`: the socket front ends of the shipped serde transport
//! (`serde_transport::tcp::{listen, connect}`, `serde_transport::unix::{listen, connect}`) with the
//! length-delimited framing configured on BOTH sides through `config_mut()` (width and byte order
//! of the length field, maximal frame length).  Messages written at one end must be read at the
//! other intact and in order, and the reader sees end-of-stream after the writer is dropped.
//!
//! Script: `t=<tcp|unix>,c=<b|j>,lf=<1|2|3|4|8>,le=<0|1>,mf=<max frame length>|c<id>:<len> s<id>:<len> ...`
//! (c = client to server, s = server to client; <len> = body length).
use crate::exec::{coq_list, Case};
use crate::rng::Rng;
use futures::{SinkExt, StreamExt};
use std::time::Duration;
use tarpc::Response;

pub struct Script {
    pub unix: bool,
    pub json: bool,
    pub lf: usize,
    pub le: bool,
    pub mf: usize,
    pub msgs: Vec<(bool, u64, usize)>, // (from client, id, body length)
}

pub fn parse(line: &str) -> Option<Script> {
    let (cfg, rest) = line.trim().split_once('|')?;
    let mut s = Script { unix: false, json: false, lf: 4, le: false, mf: 8 * 1024 * 1024, msgs: vec![] };
    for kv in cfg.split(',') {
        let (k, v) = kv.trim().split_once('=')?;
        match k {
            "t" => s.unix = v == "unix",
            "c" => s.json = v == "j",
            "lf" => s.lf = [1usize, 2, 3, 4, 8].into_iter().find(|x| x.to_string() == v)?,
            "le" => s.le = v == "1",
            "mf" => s.mf = v.parse().ok()?,
            _ => return None,
        }
    }
    for t in rest.split_whitespace() {
        let (h, r) = t.split_at(1);
        let (a, b) = r.split_once(':')?;
        s.msgs.push((h == "c", a.parse().ok()?, b.parse::<usize>().ok()?.min(12_000_000)));
    }
    Some(s)
}

pub fn show(s: &Script) -> String {
    format!(
        "t={},c={},lf={},le={},mf={}|{}",
        if s.unix { "unix" } else { "tcp" },
        if s.json { "j" } else { "b" },
        s.lf,
        s.le as u8,
        s.mf,
        s.msgs.iter().map(|(c, i, l)| format!("{}{i}:{l}", if *c { "c" } else { "s" })).collect::<Vec<_>>().join(" ")
    )
}

fn body(id: u64, len: usize) -> String {
    // ASCII, so the encoded length is known; content depends on the id
    let c = (b'a' + (id % 26) as u8) as char;
    std::iter::repeat(c).take(len).collect()
}

fn configure(b: &mut tokio_util::codec::length_delimited::Builder, s: &Script) {
    b.length_field_length(s.lf).max_frame_length(s.mf);
    if s.le {
        b.little_endian();
    } else {
        b.big_endian();
    }
}

type Msg = Response<String>;

fn show_item(who: &str, r: Option<std::io::Result<Msg>>) -> String {
    match r {
        None => format!("K{who}End"),
        Some(Err(_)) => format!("K{who}Err"),
        Some(Ok(m)) => match &m.message {
            Ok(b) if *b == body(m.request_id, b.len()) => format!("K{who}Recv {}%N {}%N", m.request_id, b.len()),
            _ => format!("K{who}Garbled"),
        },
    }
}

macro_rules! run_sock {
    ($listen:expr, $connect:expr, $addr_of:expr, $s:expr) => {{
        let s: &Script = $s;
        let mut obs: Vec<String> = vec![];
        let mut incoming = match $listen.await {
            Ok(i) => i,
            Err(_) => return vec!["KInfra".into()],
        };
        configure(incoming.config_mut(), s);
        let addr = $addr_of(&incoming);
        let mut conn = $connect(addr);
        configure(conn.config_mut(), s);
        let (client, server) = tokio::join!(conn, incoming.next());
        let (mut client, mut server) = match (client, server) {
            (Ok(c), Some(Ok(sv))) => (c, sv),
            _ => return vec!["KInfra".into()],
        };
        let t = Duration::from_secs(20);
        // client -> server
        let up: Vec<&(bool, u64, usize)> = s.msgs.iter().filter(|m| m.0).collect();
        let send_up = async {
            let mut o = vec![];
            for (_, id, len) in &up {
                let r = client.send(Response { request_id: *id, message: Ok(body(*id, *len)) }).await;
                if r.is_err() {
                    o.push(format!("KCSendErr {}%N", id));
                    break;
                }
            }
            o
        };
        let recv_up = async {
            let mut o = vec![];
            for _ in 0..up.len() {
                match tokio::time::timeout(t, server.next()).await {
                    Err(_) => {
                        o.push("KSTimeout".to_string());
                        break;
                    }
                    Ok(r) => {
                        let stop = !matches!(r, Some(Ok(_)));
                        o.push(show_item("S", r));
                        if stop {
                            break;
                        }
                    }
                }
            }
            o
        };
        let (a, b) = tokio::join!(send_up, recv_up);
        obs.extend(a);
        obs.extend(b);
        // server -> client, then the server end is dropped
        let down: Vec<&(bool, u64, usize)> = s.msgs.iter().filter(|m| !m.0).collect();
        let send_down = async {
            let mut o = vec![];
            for (_, id, len) in &down {
                let r = server.send(Response { request_id: *id, message: Ok(body(*id, *len)) }).await;
                if r.is_err() {
                    o.push(format!("KSSendErr {}%N", id));
                    break;
                }
            }
            drop(server);
            o
        };
        let recv_down = async {
            let mut o = vec![];
            for _ in 0..down.len() + 1 {
                match tokio::time::timeout(t, client.next()).await {
                    Err(_) => {
                        o.push("KCTimeout".to_string());
                        break;
                    }
                    Ok(r) => {
                        let stop = !matches!(r, Some(Ok(_)));
                        o.push(show_item("C", r));
                        if stop {
                            break;
                        }
                    }
                }
            }
            o
        };
        let (a, b) = tokio::join!(send_down, recv_down);
        obs.extend(a);
        obs.extend(b);
        obs
    }};
}

macro_rules! tcp_fn {
    ($name:ident, $codec:ident) => {
        async fn $name(s: &Script) -> Vec<String> {
            use tarpc::serde_transport::tcp;
            type C = tokio_serde::formats::$codec<Msg, Msg>;
            let codec: fn() -> C = C::default;
            run_sock!(
                tcp::listen::<_, Msg, Msg, C, _>("127.0.0.1:0", codec),
                |a: std::net::SocketAddr| tcp::connect::<_, Msg, Msg, C, _>(a, codec),
                |i: &tcp::Incoming<Msg, Msg, C, fn() -> C>| i.local_addr(),
                s
            )
        }
    };
}
macro_rules! unix_fn {
    ($name:ident, $codec:ident) => {
        async fn $name(s: &Script, path: std::path::PathBuf) -> Vec<String> {
            use tarpc::serde_transport::unix;
            type C = tokio_serde::formats::$codec<Msg, Msg>;
            let codec: fn() -> C = C::default;
            let p2 = path.clone();
            run_sock!(
                unix::listen::<_, Msg, Msg, C, _>(path, codec),
                |_a: ()| unix::connect::<_, Msg, Msg, C, _>(p2.clone(), codec),
                |_i: &unix::Incoming<Msg, Msg, C, fn() -> C>| (),
                s
            )
        }
    };
}
tcp_fn!(run_tcp_bin, Bincode);
tcp_fn!(run_tcp_json, Json);
unix_fn!(run_unix_bin, Bincode);
unix_fn!(run_unix_json, Json);

pub fn run_impl(s: &Script, serial: usize) -> Vec<String> {
    let rt = tokio::runtime::Builder::new_current_thread().enable_all().build().expect("runtime");
    rt.block_on(async {
        if s.unix {
            let path = std::env::temp_dir().join(format!("tarpc-verif-sock-{}-{}", std::process::id(), serial));
            let _ = std::fs::remove_file(&path);
            let r = if s.json { run_unix_json(s, path.clone()).await } else { run_unix_bin(s, path.clone()).await };
            let _ = std::fs::remove_file(&path);
            r
        } else if s.json {
            run_tcp_json(s).await
        } else {
            run_tcp_bin(s).await
        }
    })
}

static RETRIES: std::sync::atomic::AtomicUsize = std::sync::atomic::AtomicUsize::new(0);

/// Can this process use loopback TCP / unix-domain sockets at all (plain tokio, no tarpc code)?
fn sockets_available(unix: bool, serial: usize) -> bool {
    use tokio::io::{AsyncReadExt, AsyncWriteExt};
    let rt = match tokio::runtime::Builder::new_current_thread().enable_all().build() {
        Ok(rt) => rt,
        Err(_) => return false,
    };
    rt.block_on(async {
        let r = tokio::time::timeout(Duration::from_secs(10), async {
            if unix {
                let path = std::env::temp_dir().join(format!("tarpc-verif-probe-{}-{}", std::process::id(), serial));
                let _ = std::fs::remove_file(&path);
                let l = tokio::net::UnixListener::bind(&path).ok()?;
                let (c, a) = tokio::join!(tokio::net::UnixStream::connect(&path), l.accept());
                let _ = std::fs::remove_file(&path);
                let (mut c, (mut a, _)) = (c.ok()?, a.ok()?);
                c.write_all(b"x").await.ok()?;
                let mut b = [0u8; 1];
                a.read_exact(&mut b).await.ok()?;
                Some(())
            } else {
                let l = tokio::net::TcpListener::bind("127.0.0.1:0").await.ok()?;
                let addr = l.local_addr().ok()?;
                let (c, a) = tokio::join!(tokio::net::TcpStream::connect(addr), l.accept());
                let (mut c, (mut a, _)) = (c.ok()?, a.ok()?);
                c.write_all(b"x").await.ok()?;
                let mut b = [0u8; 1];
                a.read_exact(&mut b).await.ok()?;
                Some(())
            }
        })
        .await;
        matches!(r, Ok(Some(())))
    })
}

pub fn to_case(s: &Script, serial: usize) -> Case {
    use std::sync::atomic::Ordering;
    let mut obs = run_impl(s, serial);
    let mut no_sockets = false;
    // The medium is the operating system. A run that could not set its sockets up, or that hit a read
    // timeout, is repeated (at most twice, and at most six times per process); if plain tokio sockets of
    // that kind do not work in this process either, the script decides nothing (`KNoSockets`).
    let mut tries = 0;
    while obs.iter().any(|o| o.contains("Timeout") || o == "KInfra") {
        if !sockets_available(s.unix, serial) {
            obs = vec!["KNoSockets".into()];
            no_sockets = true;
            break;
        }
        if tries >= 2 || RETRIES.load(Ordering::Relaxed) >= 6 {
            break;
        }
        tries += 1;
        RETRIES.fetch_add(1, Ordering::Relaxed);
        obs = run_impl(s, serial + 100_000 * tries);
    }
    let mut tags: Vec<String> = vec![
        if s.unix { "unix".to_string() } else { "tcp".to_string() },
        if s.json { "json".into() } else { "bincode".into() },
        format!("length-field:{}", s.lf),
    ];
    if no_sockets {
        tags.push("NO-SOCKETS-IN-THIS-SANDBOX".into());
    }
    if tries > 0 {
        tags.push("retried".into());
    }
    if s.lf != 4 || s.le || s.mf != 8 * 1024 * 1024 {
        tags.push("custom-framing".into());
    }
    if s.msgs.iter().any(|m| m.2 > 8 * 1024 * 1024) {
        tags.push("frame-above-default-max".into());
    }
    let ops: Vec<String> = s.msgs.iter().map(|(c, i, l)| format!("({}, {i}%N, {l}%N)", c)).collect();
    Case { cfg: "tt".into(), ops: coq_list(&ops), obs: coq_list(&obs), tags, nops: s.msgs.len() + 1 }
}

pub fn gen(rng: &mut Rng) -> Script {
    let lf = *rng.pick(&[1usize, 2, 2, 3, 4, 4, 8]);
    let json = rng.chance(1, 2);
    // the largest body whose frame certainly fits the length field and the frame limit
    let cap = match lf {
        1 => 60,
        2 => 60_000,
        _ => 200_000,
    };
    let mf = if lf == 1 { 255 } else { *rng.pick(&[4096usize, 65_535, 1 << 20, 8 << 20]) };
    let cap = cap.min(mf.saturating_sub(200)).max(8);
    let n = rng.range(1, 7) as usize;
    let msgs = (0..n)
        .map(|_| {
            let len = match rng.below(4) {
                0 => rng.below(4) as usize,
                1 => rng.below(cap as u64 / 2 + 1) as usize,
                2 => cap - rng.below(8) as usize,
                _ => rng.below(200.min(cap as u64)) as usize,
            };
            (rng.chance(1, 2), rng.below(1 << 20), len)
        })
        .collect();
    Script { unix: rng.chance(1, 3), json, lf, le: rng.chance(1, 2), mf, msgs }
}

/// every length-field width x byte order x transport x codec with a fixed exchange, and one
/// 9 MiB body under a raised frame limit per transport
pub fn sweep(mut f: impl FnMut(Script)) {
    for unix in [false, true] {
        for json in [false, true] {
            for lf in [1usize, 2, 3, 4, 8] {
                for le in [false, true] {
                    let big = if lf == 1 { 40 } else { 3000 };
                    f(Script {
                        unix,
                        json,
                        lf,
                        le,
                        mf: if lf == 1 { 255 } else { 1 << 20 },
                        msgs: vec![(true, 1, 0), (true, 2, big), (false, 3, 5), (true, 4, 1), (false, 5, big), (false, 6, 0)],
                    });
                }
            }
            f(Script { unix, json, lf: 4, le: false, mf: 16 << 20, msgs: vec![(true, 7, 9 << 20), (false, 8, 3), (false, 9, 9 << 20)] });
        }
    }
}
