//! C13: drives the real `MaxChannelsPerKey` (through `Incoming::max_channels_per_key`) with
//! scripted arrivals, closes, polls and listener end; one observation list per op.
use crate::exec::{coq_list, Case};
use crate::rng::Rng;
use futures::{channel::mpsc, Sink, Stream};
use std::cell::RefCell;
use std::collections::BTreeMap;
use std::io;
use std::pin::Pin;
use std::rc::Rc;
use std::task::{Context, Poll};
use tarpc::server::incoming::Incoming;
use tarpc::server::BaseChannel;
use tarpc::{ClientMessage, Response};

#[derive(Clone, Debug, PartialEq)]
pub enum Op {
    Arrive(u32),
    Close(u32),
    Poll,
    End,
}

pub struct Script {
    pub n: u32,
    pub ops: Vec<Op>,
}

pub fn parse(line: &str) -> Option<Script> {
    let (cfg, rest) = line.trim().split_once('|')?;
    let n = cfg.trim().strip_prefix("n=")?.parse().ok()?;
    let mut ops = vec![];
    for t in rest.split_whitespace() {
        let (h, a) = t.split_at(1);
        ops.push(match h {
            "A" => Op::Arrive(a.parse().ok()?),
            "C" => Op::Close(a.parse().ok()?),
            "P" => Op::Poll,
            "E" => Op::End,
            _ => return None,
        });
    }
    Some(Script { n, ops })
}

pub fn show(s: &Script) -> String {
    let toks: Vec<String> = s
        .ops
        .iter()
        .map(|o| match o {
            Op::Arrive(k) => format!("A{k}"),
            Op::Close(c) => format!("C{c}"),
            Op::Poll => "P".into(),
            Op::End => "E".into(),
        })
        .collect();
    format!("n={}|{}", s.n, toks.join(" "))
}

/// The transport under each fake channel: carries the key and reports its own drop.
pub(crate) struct KeyedTransport {
    pub(crate) key: u32,
    pub(crate) serial: usize,
    pub(crate) drops: Rc<RefCell<Vec<(usize, u32)>>>,
}

impl Drop for KeyedTransport {
    fn drop(&mut self) {
        self.drops.borrow_mut().push((self.serial, self.key));
    }
}

impl Stream for KeyedTransport {
    type Item = io::Result<ClientMessage<()>>;
    fn poll_next(self: Pin<&mut Self>, _: &mut Context<'_>) -> Poll<Option<Self::Item>> {
        Poll::Pending
    }
}

impl Sink<Response<()>> for KeyedTransport {
    type Error = io::Error;
    fn poll_ready(self: Pin<&mut Self>, _: &mut Context<'_>) -> Poll<io::Result<()>> {
        Poll::Ready(Ok(()))
    }
    fn start_send(self: Pin<&mut Self>, _: Response<()>) -> io::Result<()> {
        Ok(())
    }
    fn poll_flush(self: Pin<&mut Self>, _: &mut Context<'_>) -> Poll<io::Result<()>> {
        Poll::Ready(Ok(()))
    }
    fn poll_close(self: Pin<&mut Self>, _: &mut Context<'_>) -> Poll<io::Result<()>> {
        Poll::Ready(Ok(()))
    }
}

/// The key type handed to the limiter: equality is the number, but the HASH only sees its lowest
/// bit, so keys 0 and 2 collide in every hash map (K: Eq + Hash allows that): a limiter that
/// identifies keys by their hash would merge them.
#[derive(Clone, Debug, PartialEq, Eq)]
pub struct HKey(pub u32);

impl std::hash::Hash for HKey {
    fn hash<H: std::hash::Hasher>(&self, h: &mut H) {
        (self.0 & 1).hash(h)
    }
}

impl std::fmt::Display for HKey {
    fn fmt(&self, f: &mut std::fmt::Formatter<'_>) -> std::fmt::Result {
        write!(f, "{}", self.0)
    }
}

pub(crate) type Chan = BaseChannel<(), (), KeyedTransport>;

pub fn run_impl(s: &Script) -> (Vec<Vec<String>>, Vec<String>) {
    let (tx, rx) = mpsc::unbounded::<Chan>();
    let mut tx = Some(tx);
    let drops: Rc<RefCell<Vec<(usize, u32)>>> = Rc::new(RefCell::new(vec![]));
    let filter = rx.max_channels_per_key(s.n, |c: &Chan| HKey(c.get_ref().key));
    let mut filter = Box::pin(filter);
    let waker = futures::task::noop_waker();
    let mut cx = Context::from_waker(&waker);
    let mut serial = 0usize;
    let mut next_cid = 0u32;
    let mut live: BTreeMap<u32, (Box<dyn std::any::Any>, u32)> = BTreeMap::new();
    let mut obs: Vec<Vec<String>> = vec![];
    let mut tags: std::collections::BTreeSet<String> = Default::default();
    let mut pending_same_key_close: Option<u32> = None;
    for op in &s.ops {
        let mut o: Vec<String> = vec![];
        match op {
            Op::Arrive(k) => {
                if let Some(tx) = &tx {
                    let t = KeyedTransport { key: *k, serial, drops: drops.clone() };
                    serial += 1;
                    let _ = tx.unbounded_send(BaseChannel::with_defaults(t));
                    if pending_same_key_close == Some(*k) {
                        tags.insert("close+same-key-arrival-pending-at-one-poll".into());
                    }
                }
            }
            Op::Close(c) => {
                if let Some((ch, k)) = live.remove(c) {
                    drops.borrow_mut().clear();
                    drop(ch);
                    drops.borrow_mut().clear();
                    pending_same_key_close = Some(k);
                    tags.insert("close".into());
                }
            }
            Op::End => {
                tx = None;
                tags.insert("listener-end".into());
            }
            Op::Poll => {
                pending_same_key_close = None;
                drops.borrow_mut().clear();
                let r = filter.as_mut().poll_next(&mut cx);
                // channels dropped inside poll_next are the shed ones, in order
                for (_, k) in drops.borrow().iter() {
                    o.push(format!("OShed {k}"));
                    tags.insert("shed".into());
                }
                drops.borrow_mut().clear();
                match r {
                    Poll::Ready(Some(ch)) => {
                        let k = ch.get_ref().get_ref().key;
                        o.push(format!("OYield {next_cid} {k}"));
                        live.insert(next_cid, (Box::new(ch), k));
                        next_cid += 1;
                        tags.insert("yield".into());
                    }
                    Poll::Ready(None) => o.push("OEnd".into()),
                    Poll::Pending => o.push("OPending".into()),
                }
            }
        }
        obs.push(o);
    }
    // keep drop order deterministic and silent
    drop(filter);
    live.clear();
    (obs, tags.into_iter().collect())
}

pub fn to_case(s: &Script) -> Case {
    let (obs, tags) = run_impl(s);
    let ops: Vec<String> = s
        .ops
        .iter()
        .map(|o| match o {
            Op::Arrive(k) => format!("Arrive {k}"),
            Op::Close(c) => format!("Close {c}"),
            Op::Poll => "Poll".into(),
            Op::End => "EndListener".into(),
        })
        .collect();
    let obs: Vec<String> = obs.iter().map(|l| coq_list(l)).collect();
    Case { cfg: format!("{}", s.n), ops: coq_list(&ops), obs: coq_list(&obs), tags, nops: s.ops.len() }
}

/// State-aware random scripts; the "close and same-key arrival both pending at one poll"
/// pattern is forced into a third of them.
pub fn gen(rng: &mut Rng) -> Script {
    let n = rng.range(1, 3) as u32;
    let nkeys = rng.range(1, 3) as u32;
    let len = rng.range(4, 40) as usize;
    let force = rng.chance(1, 3);
    let mut ops = vec![];
    // shadow: which cids may be live (an over-approximation is fine: Close of a dead id is a no-op)
    let mut polls = 0u32;
    let mut closed: Vec<u32> = vec![];
    while ops.len() < len {
        let w = [35, 35, 22, if ops.len() > len / 2 { 2 } else { 0 }, if force { 12 } else { 0 }];
        match rng.weighted(&w) {
            0 => ops.push(Op::Arrive(rng.below(nkeys as u64) as u32)),
            1 => {
                ops.push(Op::Poll);
                polls += 1;
            }
            2 => {
                if polls > 0 {
                    let c = rng.below(polls as u64) as u32;
                    if !closed.contains(&c) {
                        closed.push(c);
                    }
                    ops.push(Op::Close(c));
                }
            }
            3 => ops.push(Op::End),
            _ => {
                // forced pattern: close a channel, let the same key arrive, then poll
                if polls > 0 {
                    let c = rng.below(polls as u64) as u32;
                    let k = rng.below(nkeys as u64) as u32;
                    ops.push(Op::Close(c));
                    ops.push(Op::Arrive(k));
                    if rng.chance(1, 2) {
                        ops.push(Op::Arrive(k));
                    }
                    ops.push(Op::Poll);
                    ops.push(Op::Poll);
                    polls += 2;
                }
            }
        }
    }
    Script { n, ops }
}

/// All scripts of exactly `len` ops over the alphabet {A0, A1, P, C0..C2, E} (thorough tier).
pub fn sweep(n: u32, len: usize, mut f: impl FnMut(Script)) {
    let alpha = [Op::Arrive(0), Op::Arrive(1), Op::Poll, Op::Close(0), Op::Close(1), Op::Close(2)];
    let mut idx = vec![0usize; len];
    loop {
        f(Script { n, ops: idx.iter().map(|&i| alpha[i].clone()).collect() });
        let mut p = 0;
        loop {
            if p == len {
                return;
            }
            idx[p] += 1;
            if idx[p] < alpha.len() {
                break;
            }
            idx[p] = 0;
            p += 1;
        }
    }
}
