//! Hand-rolled deterministic polling: every task has its own wake flag.
use std::sync::atomic::{AtomicBool, Ordering};
use std::sync::Arc;
use std::task::{Wake, Waker};

pub struct Flag(pub AtomicBool);

impl Wake for Flag {
    fn wake(self: Arc<Self>) {
        self.0.store(true, Ordering::SeqCst);
    }
    fn wake_by_ref(self: &Arc<Self>) {
        self.0.store(true, Ordering::SeqCst);
    }
}

#[derive(Clone)]
pub struct TaskWaker {
    pub flag: Arc<Flag>,
    pub waker: Waker,
}

impl TaskWaker {
    pub fn new() -> Self {
        let flag = Arc::new(Flag(AtomicBool::new(true)));
        let waker = Waker::from(flag.clone());
        TaskWaker { flag, waker }
    }
    pub fn woken(&self) -> bool {
        self.flag.0.load(Ordering::SeqCst)
    }
    pub fn take(&self) -> bool {
        self.flag.0.swap(false, Ordering::SeqCst)
    }
}

/// A case written for the Coq side: configuration term, op-list term, observation term, and the
/// tags that say which scenarios the case reached (used for the evidence histogram).
pub struct Case {
    pub cfg: String,
    pub ops: String,
    pub obs: String,
    pub tags: Vec<String>,
    pub nops: usize,
}

pub fn coq_list<T: AsRef<str>>(items: &[T]) -> String {
    let mut s = String::from("[");
    for (i, it) in items.iter().enumerate() {
        if i > 0 {
            s.push_str("; ");
        }
        s.push_str(it.as_ref());
    }
    s.push(']');
    s
}

pub fn write_cases(path: &str, cases: &[Case]) {
    use std::io::Write;
    let mut f = std::io::BufWriter::new(std::fs::File::create(path).expect("create cases file"));
    for c in cases {
        writeln!(f, "{}\t{}\t{}\t{}\t{}", c.cfg, c.ops, c.obs, c.tags.join(","), c.nops).unwrap();
    }
}
