//! WIRE layer drivers (C15) and the translator's `wire shape` subcommand.
//!
//! C15 scripts:  `codec=<bincode|json|bounded<cap>|unbounded>,rd=<n.n.n>,wr=<n.n.n>,cut=<k>|tok tok …`
//!   rd: cyclic sizes of the reads handed to the reading end (0 = one Pending), wr: cyclic sizes
//!   the byte stream accepts per write (0 = one Pending), cut=k>0: only the first k bytes of the
//!   last frame reach the reader.
//!   tokens   Q:<id>:<secs>:<nanos>:<tid-hex>:<sid>:<s|u>:<body>     ClientMessage::Request
//!            X:<id>:<tid-hex>:<sid>:<s|u>                           ClientMessage::Cancel
//!            O:<id>:<body>   E:<id>:<kind-index>:<body>             Response Ok / Err
//!            J:<hex>         a hand-written frame payload (Json: text; Bincode: bytes)
//!            R               read one item (in-memory channels)
//!            Z               framed: hand the stream to the reader, then EOF; channels: drop the writer
//!   body = h<hex of UTF-8 bytes> | r<count>x<hex byte>
//! The direction of a script is the type of its first message token.
use crate::exec::{coq_list, Case};
use crate::rng::Rng;
use crate::shape::{self, coq_bytes, Ev};
use crate::vclock;
use futures::{Sink, Stream};
use serde::{de::DeserializeOwned, Serialize};
use std::cell::RefCell;
use std::collections::VecDeque;
use std::io;
use std::panic::{catch_unwind, AssertUnwindSafe};
use std::pin::Pin;
use std::rc::Rc;
use std::task::{Context, Poll};
use std::time::{Duration, Instant};
use tarpc::{context, trace, ClientMessage, Request, Response, ServerError};
use tokio::io::{AsyncRead, AsyncWrite, ReadBuf};
use tokio_util::codec::{Framed, LengthDelimitedCodec};

// ------------------------------------------------------------------------------- io::ErrorKind

/// Every stable io::ErrorKind: the 18 of tarpc's table in table order, then the others.
pub fn kinds() -> Vec<(io::ErrorKind, &'static str)> {
    use io::ErrorKind::*;
    vec![
        (NotFound, "NotFound"),
        (PermissionDenied, "PermissionDenied"),
        (ConnectionRefused, "ConnectionRefused"),
        (ConnectionReset, "ConnectionReset"),
        (ConnectionAborted, "ConnectionAborted"),
        (NotConnected, "NotConnected"),
        (AddrInUse, "AddrInUse"),
        (AddrNotAvailable, "AddrNotAvailable"),
        (BrokenPipe, "BrokenPipe"),
        (AlreadyExists, "AlreadyExists"),
        (WouldBlock, "WouldBlock"),
        (InvalidInput, "InvalidInput"),
        (InvalidData, "InvalidData"),
        (TimedOut, "TimedOut"),
        (WriteZero, "WriteZero"),
        (Interrupted, "Interrupted"),
        (Other, "Other"),
        (UnexpectedEof, "UnexpectedEof"),
        // not in tarpc's table
        (HostUnreachable, "HostUnreachable"),
        (NetworkUnreachable, "NetworkUnreachable"),
        (NetworkDown, "NetworkDown"),
        (NotADirectory, "NotADirectory"),
        (IsADirectory, "IsADirectory"),
        (DirectoryNotEmpty, "DirectoryNotEmpty"),
        (ReadOnlyFilesystem, "ReadOnlyFilesystem"),
        (StaleNetworkFileHandle, "StaleNetworkFileHandle"),
        (StorageFull, "StorageFull"),
        (NotSeekable, "NotSeekable"),
        (QuotaExceeded, "QuotaExceeded"),
        (FileTooLarge, "FileTooLarge"),
        (ResourceBusy, "ResourceBusy"),
        (ExecutableFileBusy, "ExecutableFileBusy"),
        (Deadlock, "Deadlock"),
        (CrossesDevices, "CrossesDevices"),
        (TooManyLinks, "TooManyLinks"),
        (InvalidFilename, "InvalidFilename"),
        (ArgumentListTooLong, "ArgumentListTooLong"),
        (Unsupported, "Unsupported"),
        (OutOfMemory, "OutOfMemory"),
    ]
}

pub fn kind_coq(k: io::ErrorKind) -> String {
    let ks = kinds();
    match ks.iter().position(|(x, _)| *x == k) {
        Some(i) if i < 18 => ks[i].1.to_string(),
        Some(i) => format!("(Unportable {})", i),
        None => "(Unportable 999)".to_string(),
    }
}

// ------------------------------------------------------------------------------- messages

#[derive(Clone, Debug, PartialEq)]
pub enum Body {
    Bytes(Vec<u8>),
    Rep(u64, u8),
}
impl Body {
    pub fn string(&self) -> String {
        match self {
            Body::Bytes(b) => String::from_utf8_lossy(b).into_owned(),
            Body::Rep(n, b) => std::iter::repeat((*b & 0x7f) as char).take(*n as usize).collect(),
        }
    }
    fn tok(&self) -> String {
        match self {
            Body::Bytes(b) => format!("h{}", hex(b)),
            Body::Rep(n, b) => format!("r{n}x{:02x}", b & 0x7f),
        }
    }
    fn parse(s: &str) -> Option<Body> {
        if let Some(h) = s.strip_prefix('h') {
            let b = unhex(h)?;
            String::from_utf8(b.clone()).ok()?;
            Some(Body::Bytes(b))
        } else if let Some(r) = s.strip_prefix('r') {
            let (n, b) = r.split_once('x')?;
            Some(Body::Rep(n.parse().ok()?, u8::from_str_radix(b, 16).ok()? & 0x7f))
        } else {
            None
        }
    }
}

pub fn hex(b: &[u8]) -> String {
    b.iter().map(|x| format!("{x:02x}")).collect()
}
pub fn unhex(s: &str) -> Option<Vec<u8>> {
    if s.len() % 2 != 0 {
        return None;
    }
    (0..s.len() / 2).map(|i| u8::from_str_radix(s.get(2 * i..2 * i + 2)?, 16).ok()).collect()
}

/// Byte lists as Coq terms; long runs of one byte become `rep n b`.
pub fn coq_bytes_smart(b: &[u8]) -> String {
    if b.len() < 200 {
        return format!("{}%N", coq_bytes(b));
    }
    let mut parts: Vec<String> = vec![];
    let mut lit: Vec<u8> = vec![];
    let mut i = 0;
    while i < b.len() {
        let mut j = i;
        while j < b.len() && b[j] == b[i] {
            j += 1;
        }
        if j - i >= 64 {
            if !lit.is_empty() {
                parts.push(format!("{}%N", coq_bytes(&lit)));
                lit.clear();
            }
            parts.push(format!("rep {} {}", j - i, b[i]));
        } else {
            lit.extend_from_slice(&b[i..j]);
        }
        i = j;
    }
    if !lit.is_empty() {
        parts.push(format!("{}%N", coq_bytes(&lit)));
    }
    format!("({})", parts.join(" ++ "))
}

#[derive(Clone, Debug, PartialEq)]
pub struct Tr {
    pub tid: u128,
    pub sid: u64,
    pub sampled: bool,
}
impl Tr {
    fn to_tarpc(&self) -> trace::Context {
        trace::Context {
            trace_id: trace::TraceId::from(self.tid),
            span_id: trace::SpanId::from(self.sid),
            sampling_decision: if self.sampled {
                trace::SamplingDecision::Sampled
            } else {
                trace::SamplingDecision::Unsampled
            },
        }
    }
    fn of_tarpc(t: &trace::Context) -> Tr {
        Tr {
            tid: u128::from(t.trace_id),
            sid: u64::from(t.span_id),
            sampled: t.sampling_decision == trace::SamplingDecision::Sampled,
        }
    }
    fn coq(&self) -> String {
        format!("{{| t_trace := {}; t_span := {}; t_sampled := {} |}}", self.tid, self.sid, self.sampled)
    }
    fn tok(&self) -> String {
        format!("{:x}:{}:{}", self.tid, self.sid, if self.sampled { "s" } else { "u" })
    }
}

#[derive(Clone, Debug, PartialEq)]
pub enum Tok {
    Req { id: u64, secs: u64, nanos: u32, tr: Tr, body: Body },
    Cancel { id: u64, tr: Tr },
    Ok { id: u64, body: Body },
    Err { id: u64, kind: usize, detail: Body },
    Raw(Vec<u8>),
    Recv,
    Close,
    /// close the writing end with Sink::poll_close and keep it (no drop)
    CloseSink,
}

impl Tok {
    pub fn show(&self) -> String {
        match self {
            Tok::Req { id, secs, nanos, tr, body } => format!("Q:{id}:{secs}:{nanos}:{}:{}", tr.tok(), body.tok()),
            Tok::Cancel { id, tr } => format!("X:{id}:{}", tr.tok()),
            Tok::Ok { id, body } => format!("O:{id}:{}", body.tok()),
            Tok::Err { id, kind, detail } => format!("E:{id}:{kind}:{}", detail.tok()),
            Tok::Raw(b) => format!("J:{}", hex(b)),
            Tok::Recv => "R".into(),
            Tok::Close => "Z".into(),
            Tok::CloseSink => "K".into(),
        }
    }
    pub fn parse(t: &str) -> Option<Tok> {
        let p: Vec<&str> = t.split(':').collect();
        let tr = |a: &str, b: &str, c: &str| -> Option<Tr> {
            Some(Tr { tid: u128::from_str_radix(a, 16).ok()?, sid: b.parse().ok()?, sampled: c == "s" })
        };
        Some(match (p[0], p.len()) {
            ("Q", 8) => Tok::Req {
                id: p[1].parse().ok()?,
                secs: p[2].parse().ok()?,
                nanos: p[3].parse().ok()?,
                tr: tr(p[4], p[5], p[6])?,
                body: Body::parse(p[7])?,
            },
            ("X", 5) => Tok::Cancel { id: p[1].parse().ok()?, tr: tr(p[2], p[3], p[4])? },
            ("O", 3) => Tok::Ok { id: p[1].parse().ok()?, body: Body::parse(p[2])? },
            ("E", 4) => Tok::Err { id: p[1].parse().ok()?, kind: p[2].parse().ok()?, detail: Body::parse(p[3])? },
            ("J", 2) => Tok::Raw(unhex(p[1])?),
            ("R", 1) => Tok::Recv,
            ("Z", 1) => Tok::Close,
            ("K", 1) => Tok::CloseSink,
            _ => return None,
        })
    }
    fn is_c2s(&self) -> Option<bool> {
        match self {
            Tok::Req { .. } | Tok::Cancel { .. } => Some(true),
            Tok::Ok { .. } | Tok::Err { .. } => Some(false),
            _ => None,
        }
    }
}

/// A request context with the given absolute deadline (Context is #[non_exhaustive]).
pub fn ctx_with(deadline: Instant, tr: trace::Context) -> context::Context {
    let mut c = context::current();
    c.deadline = deadline;
    c.trace_context = tr;
    c
}

pub fn cm_of_tok(t: &Tok, now: Instant) -> Option<ClientMessage<String>> {
    match t {
        Tok::Req { id, secs, nanos, tr, body } => {
            let d = Duration::new(*secs, 0).checked_add(Duration::new(0, *nanos))?;
            let deadline = now.checked_add(d)?;
            Some(ClientMessage::Request(Request {
                context: ctx_with(deadline, tr.to_tarpc()),
                id: *id,
                message: body.string(),
            }))
        }
        Tok::Cancel { id, tr } => Some(ClientMessage::Cancel { trace_context: tr.to_tarpc(), request_id: *id }),
        _ => None,
    }
}
pub fn resp_of_tok(t: &Tok) -> Option<Response<String>> {
    match t {
        Tok::Ok { id, body } => Some(Response { request_id: *id, message: Ok(body.string()) }),
        Tok::Err { id, kind, detail } => {
            let ks = kinds();
            let k = ks.get(*kind % ks.len())?.0;
            Some(Response { request_id: *id, message: Err(ServerError::new(k, detail.string())) })
        }
        _ => None,
    }
}

pub fn cm_coq(m: &ClientMessage<String>, now: Instant) -> String {
    match m {
        ClientMessage::Request(r) => {
            let d = r.context.deadline.duration_since(now);
            format!(
                "MC (CRequest {{| r_ctx := {{| c_deadline := DlExplicit {} {}; c_trace := {} |}}; r_id := {}; r_body := {} |}})",
                d.as_secs(),
                d.subsec_nanos(),
                Tr::of_tarpc(&r.context.trace_context).coq(),
                r.id,
                coq_bytes_smart(r.message.as_bytes())
            )
        }
        ClientMessage::Cancel { trace_context, request_id } => {
            format!("MC (CCancel {} {})", Tr::of_tarpc(trace_context).coq(), request_id)
        }
        _ => "MC (CCancel {| t_trace := 0; t_span := 0; t_sampled := false |} 0)".into(),
    }
}
pub fn resp_coq(r: &Response<String>) -> String {
    match &r.message {
        Ok(b) => format!("MR {{| resp_id := {}; resp_msg := ROk {} |}}", r.request_id, coq_bytes_smart(b.as_bytes())),
        Err(e) => format!(
            "MR {{| resp_id := {}; resp_msg := RErr {{| e_kind := {}; e_detail := {} |}} |}}",
            r.request_id,
            kind_coq(e.kind),
            coq_bytes_smart(e.detail.as_bytes())
        ),
    }
}

pub fn events_coq(evs: &[Ev]) -> String {
    let items: Vec<String> = evs
        .iter()
        .map(|e| match e {
            Ev::Str(b) => format!("EStr {}", coq_bytes_smart(b)),
            other => other.coq(),
        })
        .collect();
    coq_list(&items)
}

/// A hand-written JSON text as a term of Wire.jv. Own small parser (not serde_json::Value, which
/// merges duplicate members and forgets their order): objects keep every member in order.
/// None = not JSON of the subset the model covers (no floats / exponents).
pub fn jv_of_text(text: &[u8]) -> Option<String> {
    let mut p = JsonP { s: text, i: 0 };
    let v = p.value(0)?;
    p.ws();
    if p.i != text.len() {
        return None;
    }
    Some(v)
}
struct JsonP<'a> {
    s: &'a [u8],
    i: usize,
}
impl<'a> JsonP<'a> {
    fn ws(&mut self) {
        while self.i < self.s.len() && matches!(self.s[self.i], b' ' | b'\n' | b'\t' | b'\r') {
            self.i += 1;
        }
    }
    fn eat(&mut self, c: u8) -> Option<()> {
        self.ws();
        if self.s.get(self.i) == Some(&c) {
            self.i += 1;
            Some(())
        } else {
            None
        }
    }
    fn lit(&mut self, w: &[u8]) -> Option<()> {
        if self.s[self.i..].starts_with(w) {
            self.i += w.len();
            Some(())
        } else {
            None
        }
    }
    fn string(&mut self) -> Option<Vec<u8>> {
        self.eat(b'"')?;
        let mut out = vec![];
        loop {
            let c = *self.s.get(self.i)?;
            self.i += 1;
            match c {
                b'"' => return Some(out),
                b'\\' => {
                    let e = *self.s.get(self.i)?;
                    self.i += 1;
                    match e {
                        b'"' => out.push(b'"'),
                        b'\\' => out.push(b'\\'),
                        b'/' => out.push(b'/'),
                        b'b' => out.push(8),
                        b'f' => out.push(12),
                        b'n' => out.push(b'\n'),
                        b'r' => out.push(b'\r'),
                        b't' => out.push(b'\t'),
                        b'u' => {
                            let h = std::str::from_utf8(self.s.get(self.i..self.i + 4)?).ok()?;
                            if !h.bytes().all(|c| c.is_ascii_hexdigit()) {
                                return None;
                            }
                            let mut cp = u32::from_str_radix(h, 16).ok()?;
                            self.i += 4;
                            if (0xd800..0xdc00).contains(&cp) {
                                self.lit(b"\\u")?;
                                let h2 = std::str::from_utf8(self.s.get(self.i..self.i + 4)?).ok()?;
                                if !h2.bytes().all(|c| c.is_ascii_hexdigit()) {
                                    return None;
                                }
                                let lo = u32::from_str_radix(h2, 16).ok()?;
                                if !(0xdc00..0xe000).contains(&lo) {
                                    return None;
                                }
                                self.i += 4;
                                cp = 0x10000 + ((cp - 0xd800) << 10) + (lo.checked_sub(0xdc00)?);
                            }
                            let ch = char::from_u32(cp)?;
                            let mut b = [0u8; 4];
                            out.extend_from_slice(ch.encode_utf8(&mut b).as_bytes());
                        }
                        _ => return None,
                    }
                }
                c if c < 0x20 => return None,
                c => out.push(c),
            }
        }
    }
    fn value(&mut self, depth: usize) -> Option<String> {
        if depth > 100 {
            return None;
        }
        self.ws();
        match *self.s.get(self.i)? {
            b'n' => self.lit(b"null").map(|_| "JNull".to_string()),
            b't' => self.lit(b"true").map(|_| "(JBool true)".to_string()),
            b'f' => self.lit(b"false").map(|_| "(JBool false)".to_string()),
            b'"' => self.string().map(|b| format!("(JStr {})", coq_bytes_smart(&b))),
            b'[' => {
                self.i += 1;
                let mut items = vec![];
                self.ws();
                if self.s.get(self.i) == Some(&b']') {
                    self.i += 1;
                    return Some("(JArr [])".into());
                }
                loop {
                    items.push(self.value(depth + 1)?);
                    self.ws();
                    match *self.s.get(self.i)? {
                        b',' => self.i += 1,
                        b']' => {
                            self.i += 1;
                            return Some(format!("(JArr {})", coq_list(&items)));
                        }
                        _ => return None,
                    }
                }
            }
            b'{' => {
                self.i += 1;
                let mut items = vec![];
                self.ws();
                if self.s.get(self.i) == Some(&b'}') {
                    self.i += 1;
                    return Some("(JObj [])".into());
                }
                loop {
                    let k = String::from_utf8(self.string()?).ok()?;
                    if !k.bytes().all(|c| (0x20..0x7f).contains(&c)) {
                        return None;
                    }
                    self.eat(b':')?;
                    let v = self.value(depth + 1)?;
                    items.push(format!("(\"{}\"%string, {})", k.replace('"', "\"\""), v));
                    self.ws();
                    match *self.s.get(self.i)? {
                        b',' => self.i += 1,
                        b'}' => {
                            self.i += 1;
                            return Some(format!("(JObj {})", coq_list(&items)));
                        }
                        _ => return None,
                    }
                }
            }
            b'-' | b'0'..=b'9' => {
                let st = self.i;
                if self.s[self.i] == b'-' {
                    self.i += 1;
                }
                let d0 = self.i;
                while self.i < self.s.len() && self.s[self.i].is_ascii_digit() {
                    self.i += 1;
                }
                if self.i == d0 || (self.s[d0] == b'0' && self.i - d0 > 1) {
                    return None;
                }
                if matches!(self.s.get(self.i), Some(b'.') | Some(b'e') | Some(b'E')) {
                    return None;
                }
                let t = std::str::from_utf8(&self.s[st..self.i]).ok()?;
                if t == "-0" {
                    return None; // serde_json reads it as the float -0.0: outside the subset
                }
                Some(format!("(JNum ({t})%Z)"))
            }
            _ => None,
        }
    }
}

// ------------------------------------------------------------------------------- scripted byte stream

/// One direction of an in-memory byte stream with scripted fragmentation.
/// Writing: every poll_write accepts at most the next size of the cyclic `wr` pattern (0 = Pending
/// once). Reading: every poll_read hands out the next scripted chunk (None = Pending once); after
/// the chunks, EOF.
pub struct Pipe {
    pub out: Rc<RefCell<Vec<u8>>>,
    wr: Vec<usize>,
    wr_pos: usize,
    rd: VecDeque<Option<Vec<u8>>>,
    pub polls: Rc<RefCell<(usize, usize)>>, // (pending results given, partial writes)
    /// writing side: (poll_shutdown was called, the pipe was dropped) -- what the medium can signal
    pub half: Rc<std::cell::Cell<(bool, bool)>>,
    /// writing side, staging mode (a stream that buffers internally, BufWriter/TLS-like): poll_write
    /// accepts into `stage`; poll_flush moves the stage to the wire (`out`) after answering Pending
    /// the scripted number of times (`fl`, cyclic, one entry per flush operation); poll_shutdown
    /// flushes, then closes; bytes still staged when the pipe is dropped are LOST.
    staging: bool,
    stage: Vec<u8>,
    fl: Vec<usize>,
    fl_pos: usize,
    fl_left: Option<usize>,
    pub flush_pendings: Rc<std::cell::Cell<usize>>,
    /// reading side: false = the peer has neither shut down nor dropped: after the chunks, Pending for ever
    eof: bool,
    pub stalled: Rc<std::cell::Cell<bool>>,
}

impl Drop for Pipe {
    fn drop(&mut self) {
        let (s, _) = self.half.get();
        self.half.set((s, true));
    }
}

impl Pipe {
    pub fn writer(wr: &[usize]) -> Pipe {
        Pipe::writer_staged(wr, &[])
    }
    /// fl non-empty: staging mode
    pub fn writer_staged(wr: &[usize], fl: &[usize]) -> Pipe {
        Pipe {
            staging: !fl.is_empty(),
            stage: vec![],
            fl: fl.to_vec(),
            fl_pos: 0,
            fl_left: None,
            flush_pendings: Rc::new(std::cell::Cell::new(0)),
            out: Rc::new(RefCell::new(vec![])),
            wr: if wr.iter().any(|&x| x > 0) { wr.to_vec() } else { vec![usize::MAX] },
            wr_pos: 0,
            rd: VecDeque::new(),
            polls: Rc::new(RefCell::new((0, 0))),
            half: Rc::new(std::cell::Cell::new((false, false))),
            eof: true,
            stalled: Rc::new(std::cell::Cell::new(false)),
        }
    }
    pub fn reader(chunks: Vec<Option<Vec<u8>>>) -> Pipe {
        Pipe::reader_with(chunks, true)
    }
    /// eof = false: the writing end was neither shut down nor dropped, so no end-of-stream arrives
    pub fn reader_with(chunks: Vec<Option<Vec<u8>>>, eof: bool) -> Pipe {
        Pipe {
            staging: false,
            stage: vec![],
            fl: vec![],
            fl_pos: 0,
            fl_left: None,
            flush_pendings: Rc::new(std::cell::Cell::new(0)),
            out: Rc::new(RefCell::new(vec![])),
            wr: vec![usize::MAX],
            wr_pos: 0,
            rd: chunks.into(),
            polls: Rc::new(RefCell::new((0, 0))),
            half: Rc::new(std::cell::Cell::new((false, false))),
            eof,
            stalled: Rc::new(std::cell::Cell::new(false)),
        }
    }
}

impl AsyncWrite for Pipe {
    fn poll_write(mut self: Pin<&mut Self>, cx: &mut Context<'_>, buf: &[u8]) -> Poll<io::Result<usize>> {
        let k = self.wr[self.wr_pos % self.wr.len()];
        self.wr_pos += 1;
        if k == 0 {
            self.polls.borrow_mut().0 += 1;
            cx.waker().wake_by_ref();
            return Poll::Pending;
        }
        let n = k.min(buf.len());
        if n < buf.len() {
            self.polls.borrow_mut().1 += 1;
        }
        if self.staging {
            self.stage.extend_from_slice(&buf[..n]);
        } else {
            self.out.borrow_mut().extend_from_slice(&buf[..n]);
        }
        Poll::Ready(Ok(n))
    }
    fn poll_flush(mut self: Pin<&mut Self>, cx: &mut Context<'_>) -> Poll<io::Result<()>> {
        if !self.staging {
            return Poll::Ready(Ok(()));
        }
        if self.fl_left.is_none() && self.stage.is_empty() {
            // nothing staged: a flush has nothing to wait for (and the next layer's flush right
            // after a completed one must not start a new round of Pending results)
            return Poll::Ready(Ok(()));
        }
        if self.fl_left.is_none() {
            let k = self.fl[self.fl_pos % self.fl.len()];
            self.fl_pos += 1;
            self.fl_left = Some(k);
        }
        match self.fl_left {
            Some(k) if k > 0 => {
                self.fl_left = Some(k - 1);
                self.flush_pendings.set(self.flush_pendings.get() + 1);
                cx.waker().wake_by_ref();
                Poll::Pending
            }
            _ => {
                self.fl_left = None;
                let staged = std::mem::take(&mut self.stage);
                self.out.borrow_mut().extend_from_slice(&staged);
                Poll::Ready(Ok(()))
            }
        }
    }
    fn poll_shutdown(mut self: Pin<&mut Self>, _: &mut Context<'_>) -> Poll<io::Result<()>> {
        // shutdown = flush what is staged, then close
        let staged = std::mem::take(&mut self.stage);
        self.out.borrow_mut().extend_from_slice(&staged);
        let (_, d) = self.half.get();
        self.half.set((true, d));
        Poll::Ready(Ok(()))
    }
}

impl AsyncRead for Pipe {
    fn poll_read(mut self: Pin<&mut Self>, cx: &mut Context<'_>, buf: &mut ReadBuf<'_>) -> Poll<io::Result<()>> {
        match self.rd.pop_front() {
            None if self.eof => Poll::Ready(Ok(())), // EOF
            None => {
                self.stalled.set(true);
                Poll::Pending
            }
            Some(None) => {
                self.polls.borrow_mut().0 += 1;
                cx.waker().wake_by_ref();
                Poll::Pending
            }
            Some(Some(mut c)) => {
                let n = c.len().min(buf.remaining());
                buf.put_slice(&c[..n]);
                if n < c.len() {
                    let rest = c.split_off(n);
                    self.rd.push_front(Some(rest));
                }
                Poll::Ready(Ok(()))
            }
        }
    }
}

// ------------------------------------------------------------------------------- scripts

#[derive(Clone, Debug, PartialEq)]
pub enum Codec {
    Bincode,
    Json,
    Bounded(usize),
    Unbounded,
}

#[derive(Clone, Debug)]
pub struct Script {
    pub codec: Codec,
    pub rd: Vec<usize>,
    pub wr: Vec<usize>,
    /// non-empty: the byte stream stages writes; entry = Pending results of one flush operation (cyclic)
    pub fl: Vec<usize>,
    pub cut: usize,
    pub toks: Vec<Tok>,
}

fn sizes(s: &str) -> Vec<usize> {
    s.split('.').filter_map(|x| x.parse().ok()).collect()
}
fn show_sizes(v: &[usize]) -> String {
    v.iter().map(|x| x.to_string()).collect::<Vec<_>>().join(".")
}

pub fn parse(line: &str) -> Option<Script> {
    let (cfg, rest) = line.trim().split_once('|')?;
    let mut s = Script { codec: Codec::Bincode, rd: vec![], wr: vec![], fl: vec![], cut: 0, toks: vec![] };
    for kv in cfg.split(',') {
        let (k, v) = kv.split_once('=')?;
        match k.trim() {
            "codec" => {
                s.codec = match v {
                    "bincode" => Codec::Bincode,
                    "json" => Codec::Json,
                    "unbounded" => Codec::Unbounded,
                    b if b.starts_with("bounded") => Codec::Bounded(b[7..].parse().ok()?),
                    _ => return None,
                }
            }
            "rd" => s.rd = sizes(v),
            "wr" => s.wr = sizes(v),
            "fl" => s.fl = sizes(v),
            "cut" => s.cut = v.parse().ok()?,
            _ => return None,
        }
    }
    for t in rest.split_whitespace() {
        s.toks.push(Tok::parse(t)?);
    }
    Some(s)
}

pub fn show(s: &Script) -> String {
    let codec = match &s.codec {
        Codec::Bincode => "bincode".to_string(),
        Codec::Json => "json".to_string(),
        Codec::Unbounded => "unbounded".to_string(),
        Codec::Bounded(c) => format!("bounded{c}"),
    };
    format!(
        "codec={codec},rd={},wr={},fl={},cut={}|{}",
        show_sizes(&s.rd),
        show_sizes(&s.wr),
        show_sizes(&s.fl),
        s.cut,
        s.toks.iter().map(|t| t.show()).collect::<Vec<_>>().join(" ")
    )
}

/// explicit chunk sizes for a stream of `len` bytes from the cyclic pattern
fn explicit_chunks(pattern: &[usize], len: usize) -> Vec<usize> {
    let mut out = vec![];
    if !pattern.iter().any(|&x| x > 0) {
        return out;
    }
    let mut left = len;
    let mut i = 0;
    while left > 0 {
        let k = pattern[i % pattern.len()].min(left);
        out.push(k);
        left -= k;
        i += 1;
        if out.len() > 200_000 {
            break;
        }
    }
    out
}

// ------------------------------------------------------------------------------- running a script

pub trait WireMsg: Sized + Serialize + DeserializeOwned + 'static {
    fn build(t: &Tok, now: Instant) -> Option<Self>;
    fn coq(&self, now: Instant) -> String;
}
impl WireMsg for ClientMessage<String> {
    fn build(t: &Tok, now: Instant) -> Option<Self> {
        cm_of_tok(t, now)
    }
    fn coq(&self, now: Instant) -> String {
        cm_coq(self, now)
    }
}
impl WireMsg for Response<String> {
    fn build(t: &Tok, _: Instant) -> Option<Self> {
        resp_of_tok(t)
    }
    fn coq(&self, _: Instant) -> String {
        resp_coq(self)
    }
}

/// true = the error came from the framing layer (the stream is over), false = a payload the
/// codec rejected (the stream goes on)
fn is_stream_error(e: &io::Error) -> bool {
    if std::env::var("WIRE_DEBUG").is_ok() {
        eprintln!("item error: {e:?}");
    }
    match e.get_ref() {
        Some(inner) => {
            if let Some(j) = inner.downcast_ref::<serde_json::Error>() {
                return j.is_io();
            }
            if let Some(ioe) = inner.downcast_ref::<io::Error>() {
                // tokio_serde wraps a codec's own error as io::Error(InvalidData, <codec error>)
                return !ioe
                    .get_ref()
                    .map(|x| x.is::<Box<bincode::ErrorKind>>() || x.is::<serde_json::Error>())
                    .unwrap_or(false);
            }
            true
        }
        None => true,
    }
}

struct Outcome {
    obs: Vec<Vec<String>>,
    tags: Vec<String>,
    chunks: Vec<usize>,
}

macro_rules! framed_run {
    ($W:ty, $O:ty, $codec:ident, $s:expr, $now:expr) => {{
        let s: &Script = $s;
        let now: Instant = $now;
        let mut tags: Vec<String> = vec![];
        let mut obs: Vec<Vec<String>> = vec![];
        let pipe = Pipe::writer_staged(&s.wr, &s.fl);
        let fpend = pipe.flush_pendings.clone();
        let out = pipe.out.clone();
        let wpolls = pipe.polls.clone();
        let half = pipe.half.clone();
        let mut a_slot: Option<tarpc::serde_transport::Transport<Pipe, $O, $W, tokio_serde::formats::$codec<$O, $W>>> =
            Some(tarpc::serde_transport::new(
                Framed::new(pipe, LengthDelimitedCodec::new()),
                tokio_serde::formats::$codec::<$O, $W>::default(),
            ));
        let waker = futures::task::noop_waker();
        let mut cx = Context::from_waker(&waker);
        let mut closed = false;
        let mut frames: Vec<usize> = vec![];
        let mut chunks_used: Vec<usize> = vec![];
        for t in &s.toks {
            let mut o: Vec<String> = vec![];
            if closed {
                obs.push(o);
                continue;
            }
            match t {
                Tok::Req { .. } | Tok::Cancel { .. } | Tok::Ok { .. } | Tok::Err { .. } => {
                    if let Some(m) = <$W as WireMsg>::build(t, now) {
                        o.push(format!("OEvents {}", events_coq(&shape::record(&m))));
                        let before = out.borrow().len();
                        let a = a_slot.as_mut().expect("writer alive until the script closes");
                        let r = catch_unwind(AssertUnwindSafe(|| {
                            let mut ok = false;
                            for _ in 0..100000 {
                                match Pin::new(&mut *a).poll_ready(&mut cx) {
                                    Poll::Ready(Ok(())) => {
                                        ok = true;
                                        break;
                                    }
                                    Poll::Ready(Err(_)) => return Err(()),
                                    Poll::Pending => {}
                                }
                            }
                            if !ok {
                                return Err(());
                            }
                            Pin::new(&mut *a).start_send(m).map_err(|_| ())?;
                            for _ in 0..10_000_000 {
                                match Pin::new(&mut *a).poll_flush(&mut cx) {
                                    Poll::Ready(Ok(())) => return Ok(()),
                                    Poll::Ready(Err(_)) => return Err(()),
                                    Poll::Pending => {}
                                }
                            }
                            Err(())
                        }));
                        match r {
                            Ok(Ok(())) => {
                                let all = out.borrow();
                                o.push(format!("OFrame {}", coq_bytes_smart(&all[before..])));
                                frames.push(all.len() - before);
                            }
                            Ok(Err(())) => {
                                o.push("OTooBig".into());
                                tags.push("too-big".into());
                            }
                            Err(_) => {
                                o.push("OStreamErr".into());
                                tags.push("panic".into());
                            }
                        }
                    }
                }
                Tok::Raw(p) => {
                    let mut f = (p.len() as u32).to_be_bytes().to_vec();
                    f.extend_from_slice(p);
                    out.borrow_mut().extend_from_slice(&f);
                    o.push(format!("OFrame {}", coq_bytes_smart(&f)));
                    frames.push(f.len());
                    tags.push("hand-written".into());
                }
                Tok::Recv => {}
                Tok::Close | Tok::CloseSink => {
                    closed = true;
                    if *t == Tok::Close {
                        // the writing end is dropped: the medium sees the pipe go away
                        drop(a_slot.take());
                        tags.push("writer-dropped".into());
                    } else if let Some(a) = a_slot.as_mut() {
                        // Sink::poll_close until it completes; the writer is kept alive
                        let r = catch_unwind(AssertUnwindSafe(|| {
                            for _ in 0..10_000_000 {
                                match Pin::new(&mut *a).poll_close(&mut cx) {
                                    Poll::Ready(_) => return,
                                    Poll::Pending => {}
                                }
                            }
                        }));
                        if r.is_err() {
                            tags.push("panic".into());
                        }
                        tags.push("sink-closed".into());
                        if half.get().0 {
                            o.push("OShut".into());
                        }
                    }
                    // the reader sees end-of-stream only if the medium was told: shutdown or drop
                    let (shut, dropped) = half.get();
                    let eof_signalled = shut || dropped;
                    let mut stream = out.borrow().clone();
                    if s.cut > 0 {
                        if let Some(&last) = frames.last() {
                            if s.cut < last {
                                let keep = stream.len() - last + s.cut;
                                stream.truncate(keep);
                                tags.push("cut".into());
                            }
                        }
                    }
                    chunks_used = explicit_chunks(&s.rd, stream.len());
                    let mut cs: Vec<Option<Vec<u8>>> = vec![];
                    let mut pos = 0;
                    for &k in &chunks_used {
                        if k == 0 {
                            cs.push(None);
                        } else {
                            cs.push(Some(stream[pos..pos + k].to_vec()));
                            pos += k;
                        }
                    }
                    if pos < stream.len() {
                        cs.push(Some(stream[pos..].to_vec()));
                    }
                    if chunks_used.iter().any(|&k| k == 0) {
                        tags.push("read-pending".into());
                    }
                    if chunks_used.len() > 1 {
                        tags.push("fragmented-read".into());
                    }
                    let rp = Pipe::reader_with(cs, eof_signalled);
                    let stalled = rp.stalled.clone();
                    let mut b: tarpc::serde_transport::Transport<Pipe, $W, $O, tokio_serde::formats::$codec<$W, $O>> =
                        tarpc::serde_transport::new(
                            Framed::new(rp, LengthDelimitedCodec::new()),
                            tokio_serde::formats::$codec::<$W, $O>::default(),
                        );
                    let mut guard = 0usize;
                    loop {
                        guard += 1;
                        if guard > 2_000_000 {
                            o.push("OStreamErr".into());
                            break;
                        }
                        let r = catch_unwind(AssertUnwindSafe(|| Pin::new(&mut b).poll_next(&mut cx)));
                        match r {
                            Err(_) => {
                                o.push("OStreamErr".into());
                                tags.push("panic".into());
                                break;
                            }
                            Ok(Poll::Pending) => {
                                if stalled.get() {
                                    // everything was read and no end-of-stream will ever come
                                    o.push("OPending".into());
                                    tags.push("no-end-of-stream".into());
                                    break;
                                }
                                continue;
                            }
                            Ok(Poll::Ready(None)) => {
                                o.push("OEnd".into());
                                break;
                            }
                            Ok(Poll::Ready(Some(Ok(m)))) => o.push(format!("ORecv ({})", m.coq(now))),
                            Ok(Poll::Ready(Some(Err(e)))) => {
                                if is_stream_error(&e) {
                                    o.push("OStreamErr".into());
                                    tags.push("stream-error".into());
                                } else {
                                    o.push("ORecvErr".into());
                                    tags.push("payload-rejected".into());
                                }
                            }
                        }
                    }
                }
            }
            obs.push(o);
        }
        let (p, w) = *wpolls.borrow();
        if p > 0 {
            tags.push("write-pending".into());
        }
        if w > 0 {
            tags.push("partial-write".into());
        }
        if !s.fl.is_empty() {
            tags.push("staged-stream".into());
        }
        if fpend.get() > 0 {
            tags.push("flush-pending".into());
        }
        Outcome { obs, tags, chunks: chunks_used }
    }};
}

macro_rules! chan_run {
    ($W:ty, $O:ty, $s:expr, $now:expr, $mk:expr) => {{
        let s: &Script = $s;
        let now: Instant = $now;
        let mut tags: Vec<String> = vec![];
        let mut obs: Vec<Vec<String>> = vec![];
        let (a, mut b) = $mk;
        let mut a = Some(a);
        let waker = futures::task::noop_waker();
        let mut cx = Context::from_waker(&waker);
        for t in &s.toks {
            let mut o: Vec<String> = vec![];
            match t {
                Tok::Req { .. } | Tok::Cancel { .. } | Tok::Ok { .. } | Tok::Err { .. } => {
                    if let Some(m) = <$W as WireMsg>::build(t, now) {
                        match a.as_mut() {
                            None => o.push("OGone".into()),
                            Some(a) => match Pin::new(&mut *a).poll_ready(&mut cx) {
                                Poll::Pending => {
                                    o.push("OFull".into());
                                    tags.push("full".into());
                                }
                                Poll::Ready(Err(_)) => o.push("OGone".into()),
                                Poll::Ready(Ok(())) => match Pin::new(&mut *a).start_send(m) {
                                    Ok(()) => o.push("OSent".into()),
                                    Err(_) => o.push("OGone".into()),
                                },
                            },
                        }
                    }
                }
                Tok::Recv => match Pin::new(&mut b).poll_next(&mut cx) {
                    Poll::Pending => o.push("OPending".into()),
                    Poll::Ready(None) => {
                        o.push("OEnd".into());
                        tags.push("end-after-drop".into());
                    }
                    Poll::Ready(Some(Ok(m))) => o.push(format!("ORecv ({})", WireMsg::coq(&m, now))),
                    Poll::Ready(Some(Err(_))) => o.push("OStreamErr".into()),
                },
                Tok::Close => {
                    if a.take().is_some() {
                        tags.push("writer-dropped".into());
                    }
                }
                Tok::CloseSink => {
                    if let Some(a) = a.as_mut() {
                        for _ in 0..100_000 {
                            if Pin::new(&mut *a).poll_close(&mut cx).is_ready() {
                                break;
                            }
                        }
                        tags.push("sink-closed".into());
                    }
                }
                Tok::Raw(_) => {}
            }
            obs.push(o);
        }
        let _: Option<&$O> = None;
        Outcome { obs, tags, chunks: vec![] }
    }};
}

pub fn to_case(s: &Script) -> Case {
    vclock::reset();
    let rt = vclock::runtime();
    let _g = rt.enter();
    let now = Instant::now();
    let c2s = s.toks.iter().find_map(|t| t.is_c2s()).unwrap_or(true);
    type CM = ClientMessage<String>;
    type RS = Response<String>;
    // tokens of the other direction are not part of this script
    let mut s2 = s.clone();
    s2.toks = s.toks.iter().filter(|t| t.is_c2s().map(|d| d == c2s).unwrap_or(true)).cloned().collect();
    let s = &s2;
    let out = match (&s.codec, c2s) {
        (Codec::Bincode, true) => framed_run!(CM, RS, Bincode, s, now),
        (Codec::Bincode, false) => framed_run!(RS, CM, Bincode, s, now),
        (Codec::Json, true) => framed_run!(CM, RS, Json, s, now),
        (Codec::Json, false) => framed_run!(RS, CM, Json, s, now),
        (Codec::Unbounded, true) => {
            chan_run!(CM, RS, s, now, { let (x, y) = tarpc::transport::channel::unbounded::<RS, CM>(); (x, y) })
        }
        (Codec::Unbounded, false) => {
            chan_run!(RS, CM, s, now, { let (x, y) = tarpc::transport::channel::unbounded::<CM, RS>(); (x, y) })
        }
        (Codec::Bounded(c), true) => {
            chan_run!(CM, RS, s, now, { let (x, y) = tarpc::transport::channel::bounded::<RS, CM>(*c); (x, y) })
        }
        (Codec::Bounded(c), false) => {
            chan_run!(RS, CM, s, now, { let (x, y) = tarpc::transport::channel::bounded::<CM, RS>(*c); (x, y) })
        }
    };
    // terms
    let codec = match &s.codec {
        Codec::Bincode => "TBincode".to_string(),
        Codec::Json => "TJson".to_string(),
        Codec::Unbounded => "TUnbounded".to_string(),
        Codec::Bounded(c) => format!("(TBounded {c})"),
    };
    let chunk_items: Vec<String> = out.chunks.iter().map(|k| k.to_string()).collect();
    let cfg = format!(
        "{{| codec := {codec}; chunks := {}%nat; cut := {}%nat |}}",
        coq_list(&chunk_items),
        s.cut
    );
    let mut ops: Vec<String> = vec![];
    for t in &s.toks {
        ops.push(match t {
            Tok::Req { .. } | Tok::Cancel { .. } => match cm_of_tok(t, now) {
                Some(m) => format!("Send ({})", cm_coq(&m, now)),
                None => "Recv".into(),
            },
            Tok::Ok { .. } | Tok::Err { .. } => match resp_of_tok(t) {
                Some(m) => format!("Send ({})", resp_coq(&m)),
                None => "Recv".into(),
            },
            Tok::Raw(p) => {
                let tree = if s.codec == Codec::Json {
                    match jv_of_text(p) {
                        Some(v) => format!("(Some {v})"),
                        None => "None".into(),
                    }
                } else {
                    "None".into()
                };
                format!("SendRaw {} {}", coq_bytes_smart(p), tree)
            }
            Tok::Recv => "Recv".into(),
            Tok::Close => "Close".into(),
            Tok::CloseSink => "CloseSink".into(),
        });
    }
    // a token that could not be built (e.g. a deadline that overflows Instant) is a no-op on both
    // sides: it was printed as Recv, which is a no-op for framed codecs; for channels drop it
    let mut tags = out.tags.clone();
    for t in &s.toks {
        match t {
            Tok::Err { kind, .. } => {
                tags.push(if *kind % kinds().len() < 18 { "portable-kind".into() } else { "unportable-kind".into() })
            }
            Tok::Req { id, body, .. } => {
                if matches!(*id, 0 | 250 | 251 | 65535 | 65536 | 4294967295 | 4294967296 | u64::MAX) {
                    tags.push("boundary-id".into());
                }
                match body {
                    Body::Rep(n, _) if *n >= 65536 => tags.push("large-body".into()),
                    Body::Bytes(b) if b.iter().any(|x| *x >= 0x80) => tags.push("multibyte-utf8".into()),
                    Body::Bytes(b) if b.is_empty() => tags.push("empty-body".into()),
                    _ => {}
                }
            }
            Tok::Cancel { .. } => tags.push("cancel".into()),
            _ => {}
        }
    }
    tags.push(match &s.codec {
        Codec::Bincode => "bincode".into(),
        Codec::Json => "json".into(),
        Codec::Unbounded => "unbounded".into(),
        Codec::Bounded(_) => "bounded".into(),
    });
    tags.sort();
    tags.dedup();
    let obs_items: Vec<String> = out.obs.iter().map(|l| coq_list(l)).collect();
    Case { cfg, ops: coq_list(&ops), obs: coq_list(&obs_items), tags, nops: s.toks.len() }
}

// ------------------------------------------------------------------------------- generation

const BOUNDARY_IDS: [u64; 12] =
    [0, 1, 250, 251, 252, 65535, 65536, 4294967295, 4294967296, u64::MAX - 1, u64::MAX, 7];

fn gen_body(rng: &mut Rng, big_ok: bool) -> Body {
    match rng.below(12) {
        0 => Body::Bytes(vec![]),
        1 => Body::Bytes("héllo → 🦀 ünïcode".as_bytes().to_vec()),
        2 => Body::Bytes(b"quote\" back\\slash \n\t\r \x08\x0c\x01\x1f/".to_vec()),
        3 => Body::Rep(rng.pick(&[250u64, 251, 252, 300]).clone(), b'a'),
        4 if big_ok => Body::Rep(rng.pick(&[65535u64, 65536, 70000]).clone(), b'z'),
        5 => Body::Bytes("\u{7f}\u{80}\u{7ff}\u{800}\u{ffff}\u{10000}\u{10ffff}".as_bytes().to_vec()),
        _ => {
            let n = rng.below(24) as usize;
            Body::Bytes((0..n).map(|_| b' ' + rng.below(90) as u8).collect())
        }
    }
}
fn gen_tr(rng: &mut Rng) -> Tr {
    Tr {
        tid: match rng.below(5) {
            0 => 0,
            1 => u128::MAX,
            2 => 1u128 << 64,
            3 => 250,
            _ => ((rng.next() as u128) << 64) | rng.next() as u128,
        },
        sid: match rng.below(4) {
            0 => 0,
            1 => u64::MAX,
            2 => 251,
            _ => rng.next(),
        },
        sampled: rng.chance(1, 2),
    }
}
fn gen_id(rng: &mut Rng) -> u64 {
    if rng.chance(2, 3) {
        *rng.pick(&BOUNDARY_IDS)
    } else {
        rng.next() >> rng.below(64)
    }
}

pub fn gen(rng: &mut Rng) -> Script {
    let codec = match rng.below(10) {
        0..=3 => Codec::Bincode,
        4..=7 => Codec::Json,
        8 => Codec::Bounded(rng.range(1, 3) as usize),
        _ => Codec::Unbounded,
    };
    let framed = matches!(codec, Codec::Bincode | Codec::Json);
    let c2s = rng.chance(1, 2);
    let n = rng.range(1, 7) as usize;
    let mut toks = vec![];
    let big_ok = framed && rng.chance(1, 8);
    for _ in 0..n {
        let t = if c2s {
            if rng.chance(3, 4) {
                Tok::Req {
                    id: gen_id(rng),
                    secs: *rng.pick(&[0u64, 1, 10, 250, 251, 65536, 4294967296, 31_536_000, 1u64 << 40]),
                    nanos: *rng.pick(&[0u32, 1, 250, 251, 999_999_999, 500_000_000]),
                    tr: gen_tr(rng),
                    body: gen_body(rng, big_ok),
                }
            } else {
                Tok::Cancel { id: gen_id(rng), tr: gen_tr(rng) }
            }
        } else if rng.chance(1, 2) {
            Tok::Ok { id: gen_id(rng), body: gen_body(rng, big_ok) }
        } else {
            Tok::Err { id: gen_id(rng), kind: rng.below(kinds().len() as u64) as usize, detail: gen_body(rng, false) }
        };
        toks.push(t);
        if !framed && rng.chance(1, 2) {
            toks.push(Tok::Recv);
        }
    }
    if framed && codec == Codec::Json && rng.chance(1, 2) {
        for _ in 0..rng.range(1, 3) {
            let t = if c2s { json_text_case(rng) } else { json_response_text(rng) };
            toks.insert(rng.below(toks.len() as u64 + 1) as usize, Tok::Raw(t));
        }
    }
    if framed && c2s && codec == Codec::Bincode && rng.chance(1, 5) {
        toks.insert(rng.below(toks.len() as u64 + 1) as usize, Tok::Raw(hand_bincode(rng)));
    }
    // the writing end is dropped (Z) or closed with poll_close and kept (K)
    toks.push(if rng.chance(1, 2) { Tok::Close } else { Tok::CloseSink });
    if !framed {
        for _ in 0..rng.range(1, 4) {
            toks.push(Tok::Recv);
        }
    }
    let big = toks.iter().any(|t| matches!(t, Tok::Req { body: Body::Rep(n, _), .. } | Tok::Ok { body: Body::Rep(n, _), .. } if *n > 1000));
    let pat = |rng: &mut Rng| -> Vec<usize> {
        if big {
            return rng.pick(&[vec![100000usize], vec![4096, 0, 1], vec![65536, 3]]).clone();
        }
        match rng.below(6) {
            0 => vec![1],                 // byte at a time
            1 => vec![1, 0],              // byte at a time with Pending in between
            2 => vec![3, 0, 5, 2],        // straddles headers and frames
            3 => vec![1_000_000],         // everything coalesced
            4 => vec![rng.range(1, 9) as usize, rng.range(0, 40) as usize, 7],
            _ => vec![4, 0, 0, 1, 13],
        }
    };
    let rd = pat(rng);
    let wr = pat(rng);
    // a cut inside the last frame (k = 4 is exactly the length header: tokio-util then reports a
    // clean end-of-stream, which C15 accepts and C16 records as a known finding)
    let cut = if framed && rng.chance(1, 6) { *rng.pick(&[1usize, 2, 3, 4, 5, 6, 9, 17]) } else { 0 };
    // half of the framed scripts run over a stream that stages writes and whose flush answers
    // Pending 0..3 times per flush operation before it completes
    let fl = if framed && rng.chance(1, 2) {
        rng.pick(&[vec![0usize], vec![1], vec![2, 0, 1], vec![3], vec![0, 1]]).clone()
    } else {
        vec![]
    };
    Script { codec, rd, wr, fl, cut, toks }
}

/// Whitespace (space, tab, LF, CR) inserted at random token boundaries of a JSON text.
fn sprinkle_ws(rng: &mut Rng, text: &[u8]) -> Vec<u8> {
    let ws = |rng: &mut Rng, out: &mut Vec<u8>| {
        for _ in 0..rng.below(3) {
            out.push(*rng.pick(&[b' ', b'\t', b'\n', b'\r']));
        }
    };
    let mut out = vec![];
    let mut in_str = false;
    let mut esc = false;
    ws(rng, &mut out);
    for &c in text {
        if in_str {
            out.push(c);
            if esc {
                esc = false;
            } else if c == b'\\' {
                esc = true;
            } else if c == b'"' {
                in_str = false;
                ws(rng, &mut out);
            }
            continue;
        }
        match c {
            b'"' => {
                in_str = true;
                out.push(c);
            }
            b'{' | b'}' | b'[' | b']' | b':' | b',' => {
                ws(rng, &mut out);
                out.push(c);
                ws(rng, &mut out);
            }
            _ => out.push(c),
        }
    }
    ws(rng, &mut out);
    out
}

/// Texts for the differential test of the two PARSERS (serde_json vs JsonText.json_parse) on client
/// messages: real serde_json output with whitespace, pretty-printed output, escapes, boundary
/// numbers, unknown members with nested values, and malformed texts both must reject.
/// Not generated (outside the modelled subset, see JsonText.v): fractions/exponents, "-0", invalid
/// UTF-8, nesting deeper than 100, lone surrogates inside IGNORED members.
fn json_text_case(rng: &mut Rng) -> Vec<u8> {
    vclock::reset();
    let now = Instant::now();
    let real = |rng: &mut Rng| -> ClientMessage<String> {
        let t = if rng.chance(2, 3) {
            Tok::Req { id: gen_id(rng), secs: *rng.pick(&[0u64, 10, 251, 1 << 40]), nanos: *rng.pick(&[0u32, 7, 999_999_999]), tr: gen_tr(rng), body: gen_body(rng, false) }
        } else {
            Tok::Cancel { id: gen_id(rng), tr: gen_tr(rng) }
        };
        cm_of_tok(&t, now).unwrap()
    };
    let id = gen_id(rng);
    match rng.below(12) {
        0 | 1 => {
            let v = serde_json::to_vec(&real(rng)).unwrap();
            sprinkle_ws(rng, &v)
        }
        2 => serde_json::to_vec_pretty(&real(rng)).unwrap(),
        3 => {
            // escapes in a known string member: \uXXXX (ASCII, Latin-1, BMP), a surrogate pair, \/ \b \f
            let body = *rng.pick(&[
                r#"\u0041\u00e9\u20ac"#, r#"\ud83e\udd80 crab"#, r#"a\/b\b\f\n\r\t\"\\"#, r#"\u0000\u001f\u007f"#, r#"\uD83E\uDD80"#,
            ]);
            format!(r#"{{"Request":{{"context":{{"deadline":{{"secs":1,"nanos":2}},"trace_context":{TRACE_J}}},"id":{id},"message":"{body}"}}}}"#).into_bytes()
        }
        4 => {
            // must be rejected: lone / reversed surrogates, bad escapes, raw control character
            let body = *rng.pick(&[r#"\ud800"#, r#"\udc00"#, r#"\ud800\u0041"#, r#"\ud800x"#, r#"\x41"#, r#"\u12"#, r#"\u00zz"#, "a\u{1}b"]);
            format!(r#"{{"Request":{{"context":{{"trace_context":{TRACE_J}}},"id":{id},"message":"{body}"}}}}"#).into_bytes()
        }
        5 => {
            // numbers at the u64 / i64 boundaries in a u64 member
            let n = *rng.pick(&["0", "18446744073709551615", "18446744073709551616", "-1", "9223372036854775807", "9223372036854775808", "-9223372036854775808", "00", "01", "1e3", "+1"]);
            let n = if n == "1e3" { "13" } else { n }; // exponents are outside the subset
            format!(r#"{{"Cancel":{{"request_id":{n}}}}}"#).into_bytes()
        }
        6 => {
            // unknown members with every kind of value, also duplicated and before the known ones
            let extra = *rng.pick(&[
                r#""zzz":null"#, r#""zzz":[1,-2,[],{},{"a":[true,false,null]}]"#, r#""zzz":"s\u00e9","yyy":-9223372036854775808"#,
                r#""zzz":123456789012345678901234567890"#, r#""zzz":1,"zzz":2"#, r#""":{"":""}"#,
            ]);
            sprinkle_ws(rng, format!(r#"{{"Cancel":{{{extra},"request_id":{id},"trace_context":{TRACE_J}}}}}"#).as_bytes())
        }
        7 => {
            // members reordered at every level, deadline nanos that carry
            sprinkle_ws(rng, format!(r#"{{"Request":{{"message":"m","id":{id},"context":{{"trace_context":{{"sampling_decision":"Unsampled","span_id":9,"trace_id":[5,0,0,0,0,0,0,0,0,0,0,0,0,0,0,255]}},"deadline":{{"nanos":1999999999,"secs":3}}}}}}}}"#).as_bytes())
        }
        8 => {
            // truncation of a valid text at a random position
            let full = serde_json::to_vec(&real(rng)).unwrap();
            let k = rng.below(full.len() as u64) as usize;
            full[..k].to_vec()
        }
        9 => {
            // structural damage
            let t = *rng.pick(&[
                r#"{"Cancel":{"request_id":1}} x"#, r#"{"Cancel":{"request_id" 1}}"#, r#"{"Cancel":{"request_id":1,}}"#,
                r#"{Cancel:{"request_id":1}}"#, r#"{'Cancel':{'request_id':1}}"#, r#"{"Cancel":{"request_id":1}"#,
                r#"{"Cancel":[1]}"#, r#"[]"#, r#""Cancel""#, r#"null"#, r#"{"Cancel":{"request_id":1}}{"Cancel":{"request_id":2}}"#,
                r#"{"Cancel":{"request_id":tru}}"#, r#"{"Cancel":{"request_id":"1"}}"#, r#""#, r#"   "#,
                r#"{"Cancel":{"request_id":1,"trace_context":{"trace_id":[256,0,0,0,0,0,0,0,0,0,0,0,0,0,0,0],"span_id":2,"sampling_decision":"Sampled"}}}"#,
                r#"{"Cancel":{"request_id":1,"trace_context":{"trace_id":[1,0,0,0,0,0,0,0,0,0,0,0,0,0,0,0],"span_id":2,"sampling_decision":"Maybe"}}}"#,
                r#"{"Cancel":{"request_id":1,"trace_context":{"trace_id":[1,0,0,0,0,0,0,0,0,0,0,0,0,0,0,0],"span_id":2,"sampling_decision":{"Sampled":null}}}}"#,
            ]);
            t.as_bytes().to_vec()
        }
        10 => array_form_text(rng, id),
        _ => if rng.chance(1, 2) { array_form_text(rng, id) } else { hand_json(rng) },
    }
}

/// A struct (or struct variant) written either as an object or, as serde_json also accepts, as the
/// positional ARRAY of its fields (serde's visit_seq).
fn struct_text(arr: bool, fields: &[(&str, String)]) -> String {
    if arr {
        format!("[{}]", fields.iter().map(|(_, v)| v.clone()).collect::<Vec<_>>().join(","))
    } else {
        format!("{{{}}}", fields.iter().map(|(k, v)| format!("\"{k}\":{v}")).collect::<Vec<_>>().join(","))
    }
}

/// Client messages with array-form structs at every nesting level (whole message, context, trace
/// context, Duration as [secs,nanos]), each level choosing object or array independently, and one
/// mutation: complete / too short (a trailing element dropped: every struct of the protocol then
/// misses a non-default field) / too long (one element too many) / the Request context as an
/// object without its deadline inside an array-form Request.
fn array_form_text(rng: &mut Rng, id: u64) -> Vec<u8> {
    let tid: Vec<String> = (0..16).map(|i| if i == 0 { (id % 256).to_string() } else { "0".into() }).collect();
    let mut tc_f = vec![
        ("trace_id", format!("[{}]", tid.join(","))),
        ("span_id", (id % 1000).to_string()),
        ("sampling_decision", if id % 2 == 0 { "\"Sampled\"".to_string() } else { "\"Unsampled\"".to_string() }),
    ];
    let mut dur_f = vec![("secs", rng.pick(&[0u64, 3, 251, 1 << 40]).to_string()), ("nanos", rng.pick(&[0u32, 7, 999_999_999, 1_999_999_999]).to_string())];
    // 0 complete; 1 too short; 2 too long; 3 deadline omitted (object context)
    let mutation = rng.below(6).min(3);
    let level = rng.below(4); // which struct the mutation hits: 0 message, 1 context, 2 trace context, 3 duration
    let all_arr = rng.chance(1, 2);
    let mut pick = |rng: &mut Rng| all_arr || rng.chance(1, 2);
    let (a_msg, a_ctx, a_tc, a_dur) = (pick(rng), pick(rng), pick(rng), pick(rng));
    let mutate = |f: &mut Vec<(&str, String)>, arr: bool| {
        if arr {
            match mutation {
                1 => {
                    f.pop();
                }
                2 => f.push(("extra", "null".to_string())),
                _ => {}
            }
        }
    };
    if level == 3 {
        mutate(&mut dur_f, a_dur);
    }
    if level == 2 {
        mutate(&mut tc_f, a_tc);
    }
    let dur = struct_text(a_dur, &dur_f);
    let tc = struct_text(a_tc, &tc_f);
    if rng.chance(1, 3) {
        let mut f = vec![("trace_context", tc), ("request_id", id.to_string())];
        if level <= 1 {
            mutate(&mut f, a_msg);
        }
        return format!("{{\"Cancel\":{}}}", struct_text(a_msg, &f)).into_bytes();
    }
    let ctx = if mutation == 3 {
        struct_text(false, &[("trace_context", tc)])
    } else {
        let mut f = vec![("deadline", dur), ("trace_context", tc)];
        if level == 1 {
            mutate(&mut f, a_ctx);
        }
        struct_text(a_ctx, &f)
    };
    let mut f = vec![("context", ctx), ("id", id.to_string()), ("message", "\"arr\"".to_string())];
    if level == 0 {
        mutate(&mut f, a_msg);
    }
    format!("{{\"Request\":{}}}", struct_text(a_msg, &f)).into_bytes()
}

const TRACE_J: &str = r#"{"trace_id":[7,0,0,0,0,0,0,0,0,0,0,0,0,0,0,0],"span_id":3,"sampling_decision":"Sampled"}"#;

/// The same for responses (server -> client direction).
fn json_response_text(rng: &mut Rng) -> Vec<u8> {
    let id = gen_id(rng);
    let real = |rng: &mut Rng| -> Response<String> {
        let t = if rng.chance(1, 2) {
            Tok::Ok { id: gen_id(rng), body: gen_body(rng, false) }
        } else {
            Tok::Err { id: gen_id(rng), kind: rng.below(kinds().len() as u64) as usize, detail: gen_body(rng, false) }
        };
        resp_of_tok(&t).unwrap()
    };
    match rng.below(9) {
        0 | 1 => {
            let v = serde_json::to_vec(&real(rng)).unwrap();
            sprinkle_ws(rng, &v)
        }
        2 => serde_json::to_vec_pretty(&real(rng)).unwrap(),
        3 => {
            let k = *rng.pick(&["0", "17", "18", "4294967295", "4294967296", "-1"]);
            sprinkle_ws(rng, format!(r#"{{"message":{{"Err":{{"detail":"d\u00e9","kind":{k},"more":[{{}}]}}}},"request_id":{id}}}"#).as_bytes())
        }
        4 => format!(r#"{{"request_id":{id},"message":{{"Ok":"a","Err":{{"kind":1,"detail":""}}}}}}"#).into_bytes(),
        5 => format!(r#"{{"request_id":{id},"message":{{"Ok":"\ud83e\udd80\/"}},"extra":null}}"#).into_bytes(),
        6 => {
            let full = serde_json::to_vec(&real(rng)).unwrap();
            let k = rng.below(full.len() as u64) as usize;
            full[..k].to_vec()
        }
        7 => {
            let err = rng.chance(1, 2);
            let k = *rng.pick(&["0", "10", "17", "18", "4294967296"]);
            let inner = if err {
                if rng.chance(1, 2) { format!(r#"{{"Err":[{k},"d"]}}"#) } else { format!(r#"{{"Err":{{"kind":{k},"detail":"d"}}}}"#) }
            } else {
                r#"{"Ok":"x"}"#.to_string()
            };
            match rng.below(4) {
                0 => format!("[{id},{inner}]"),
                1 => format!("[{id}]"),
                2 => format!("[{id},{inner},0]"),
                _ => format!(r#"[{id},{{"Err":[{k}]}}]"#),
            }
            .into_bytes()
        }
        _ => rng.pick(&[
            r#"{"request_id":1}"#, r#"{"message":{"Ok":"x"}}"#, r#"{"request_id":1,"message":"Ok"}"#,
            r#"{"request_id":1,"message":{"Ok":1}}"#, r#"{"request_id":1,"request_id":1,"message":{"Ok":"x"}}"#,
            r#"{"request_id":1,"message":{"Nope":"x"}}"#, r#"{"request_id":1,"message":{}}"#,
        ]).as_bytes().to_vec(),
    }
}

/// Hand-written JSON client messages: optional fields omitted, members reordered, unknown
/// members, non-canonical whitespace, and a few that must be rejected.
fn hand_json(rng: &mut Rng) -> Vec<u8> {
    let id = gen_id(rng);
    let texts = [
        format!(r#"{{"Cancel":{{"request_id":{id}}}}}"#),
        format!(r#"{{"Cancel":{{"request_id":{id},"zzz":[1,{{"a":null}}]}}}}"#),
        format!(r#" {{ "Cancel" : {{ "request_id" : {id} , "trace_context":{{"trace_id":[1,0,0,0,0,0,0,0,0,0,0,0,0,0,0,0],"span_id":2,"sampling_decision":"Sampled"}} }} }} "#),
        format!(r#"{{"Request":{{"context":{{"trace_context":{{"trace_id":[0,0,0,0,0,0,0,0,0,0,0,0,0,0,0,1],"span_id":9,"sampling_decision":"Unsampled"}}}},"id":{id},"message":"no deadline"}}}}"#),
        format!(r#"{{"Request":{{"message":"reordered","id":{id},"context":{{"trace_context":{{"span_id":9,"sampling_decision":"Unsampled","trace_id":[5,0,0,0,0,0,0,0,0,0,0,0,0,0,0,0]}},"deadline":{{"nanos":7,"secs":3}}}}}}}}"#),
        format!(r#"{{"Request":{{"context":{{"deadline":{{"secs":1,"nanos":1999999999}},"trace_context":{{"trace_id":[0,0,0,0,0,0,0,0,0,0,0,0,0,0,0,0],"span_id":0,"sampling_decision":"Unsampled"}}}},"id":{id},"message":""}}}}"#),
        format!(r#"{{"Request":{{"context":{{"deadline":{{"secs":1,"nanos":1}}}},"id":{id},"message":"no trace context"}}}}"#),
        format!(r#"{{"Cancel":{{"request_id":{id},"request_id":{id}}}}}"#),
        format!(r#"{{"Cancel":{{"request_id":{id}}},"Cancel":{{"request_id":1}}}}"#),
        format!(r#"{{"Nope":{{"request_id":{id}}}}}"#),
        format!(r#"{{"Cancel":{{"request_id":-1}}}}"#),
        format!(r#"{{"Cancel":{{"request_id":{id},"trace_context":{{"trace_id":[1,0,0,0,0,0,0,0,0,0,0,0,0,0,0],"span_id":2,"sampling_decision":"Sampled"}}}}}}"#),
    ];
    rng.pick(&texts).clone().into_bytes()
}

/// Hand-written bincode payloads: non-canonical varints (accepted), trailing bytes (rejected),
/// out-of-range tags (rejected).
fn hand_bincode(rng: &mut Rng) -> Vec<u8> {
    let tc: Vec<u8> = {
        let mut v = vec![0u8; 16];
        v.push(0);
        v.push(1);
        v
    };
    let mut cancel_noncanon = vec![1u8];
    cancel_noncanon.extend_from_slice(&tc);
    cancel_noncanon.extend_from_slice(&[251, 5, 0]); // request_id 5 as 251+u16
    let mut cancel_trailing = vec![1u8];
    cancel_trailing.extend_from_slice(&tc);
    cancel_trailing.extend_from_slice(&[5, 0]);
    let mut cancel_wide = vec![253u8, 1, 0, 0, 0, 0, 0, 0, 0]; // tag 1 as 253+u64
    cancel_wide.extend_from_slice(&tc);
    cancel_wide.push(9);
    let bad_tag = vec![2u8, 0, 0];
    let u128_marker = vec![254u8, 0, 0];
    let short = vec![1u8, 0, 0];
    rng.pick(&[cancel_noncanon, cancel_trailing, cancel_wide, bad_tag, u128_marker, short]).clone()
}

/// Bounded-exhaustive family for the thorough tier: every stable io::ErrorKind under both
/// codecs and both in-memory channels; every boundary id under every chunking class.
pub fn sweep(mut f: impl FnMut(Script)) {
    let pats: [Vec<usize>; 4] = [vec![1], vec![1, 0], vec![3, 0, 5, 2], vec![1_000_000]];
    for codec in [Codec::Bincode, Codec::Json, Codec::Bounded(1), Codec::Unbounded] {
        let framed = matches!(codec, Codec::Bincode | Codec::Json);
        for k in 0..kinds().len() {
            let mut toks = vec![
                Tok::Err { id: k as u64, kind: k, detail: Body::Bytes(b"d".to_vec()) },
                if k % 2 == 0 { Tok::Close } else { Tok::CloseSink },
            ];
            if !framed {
                toks.push(Tok::Recv);
                toks.push(Tok::Recv);
            }
            f(Script { codec: codec.clone(), rd: vec![3, 0, 5, 2], wr: vec![2, 0, 7], fl: if k % 3 == 0 { vec![] } else { vec![k % 3] }, cut: 0, toks });
        }
        for id in BOUNDARY_IDS {
            for p in &pats {
                let tr = Tr { tid: id as u128, sid: id, sampled: id % 2 == 0 };
                let mut toks = vec![
                    Tok::Req { id, secs: id, nanos: (id % 1_000_000_000) as u32, tr: tr.clone(), body: Body::Bytes(b"x".to_vec()) },
                    Tok::Cancel { id, tr },
                    Tok::Close,
                ];
                if !framed {
                    toks.push(Tok::Recv);
                    toks.push(Tok::Recv);
                    toks.push(Tok::Recv);
                }
                if id > (1u64 << 62) {
                    if let Tok::Req { secs, .. } = &mut toks[0] {
                        *secs = 1 << 40;
                    }
                }
                f(Script { codec: codec.clone(), rd: p.clone(), wr: p.clone(), fl: if id % 2 == 0 { vec![1, 0] } else { vec![] }, cut: 0, toks });
            }
        }
    }
    // every cut position of a short two-frame stream, both codecs
    for codec in [Codec::Bincode, Codec::Json] {
        for cut in 1..40 {
            let toks = vec![
                Tok::Cancel { id: 1, tr: Tr { tid: 1, sid: 2, sampled: true } },
                Tok::Cancel { id: 300, tr: Tr { tid: 3, sid: 4, sampled: false } },
                Tok::Close,
            ];
            f(Script { codec: codec.clone(), rd: vec![2, 0, 3], wr: vec![5], fl: if cut % 2 == 0 { vec![2] } else { vec![] }, cut, toks });
        }
    }
    // one frame above 64 KiB and one of 1 MiB
    for codec in [Codec::Bincode, Codec::Json] {
        for n in [70000u64, 1 << 20] {
            let toks = vec![Tok::Ok { id: 1, body: Body::Rep(n, b'q') }, Tok::Ok { id: 2, body: Body::Bytes(vec![]) }, Tok::Close];
            f(Script { codec: codec.clone(), rd: vec![65536, 0, 1], wr: vec![100000, 0], fl: vec![1], cut: 0, toks });
        }
    }
}

// ------------------------------------------------------------------------------- wire shape

/// Canonical values of every protocol type through the recording serializer, the real
/// Deserialize impls through the prober; both views merged and printed as Coq definitions.
pub fn shape_definitions() -> String {
    vclock::reset();
    let now = Instant::now();
    let tr = |s: bool| Tr { tid: 1, sid: 2, sampled: s };
    let cms = [
        cm_of_tok(&Tok::Req { id: 3, secs: 10, nanos: 5, tr: tr(true), body: Body::Bytes(b"m".to_vec()) }, now).unwrap(),
        cm_of_tok(&Tok::Req { id: 3, secs: 10, nanos: 5, tr: tr(false), body: Body::Bytes(b"m".to_vec()) }, now).unwrap(),
        cm_of_tok(&Tok::Cancel { id: 4, tr: tr(true) }, now).unwrap(),
        cm_of_tok(&Tok::Cancel { id: 4, tr: tr(false) }, now).unwrap(),
    ];
    let rs = [
        resp_of_tok(&Tok::Ok { id: 1, body: Body::Bytes(b"b".to_vec()) }).unwrap(),
        resp_of_tok(&Tok::Err { id: 1, kind: 3, detail: Body::Bytes(b"d".to_vec()) }).unwrap(),
    ];
    let cm_ser = shape::ser_shape(&cms.iter().map(shape::record).collect::<Vec<_>>());
    let rs_ser = shape::ser_shape(&rs.iter().map(shape::record).collect::<Vec<_>>());
    let cm_de = shape::de_shape::<ClientMessage<String>>();
    let rs_de = shape::de_shape::<Response<String>>();
    let cm = shape::merge(&cm_ser, &cm_de);
    let rsm = shape::merge(&rs_ser, &rs_de);
    // the integer type the kind serializer writes / the deserializer reads
    fn kind_leaf(s: &shape::Sh) -> Option<(String, String)> {
        match s {
            shape::Sh::Struct(n, fs) if n == "ServerError" => {
                fs.iter().find(|f| f.name == "kind").and_then(|f| match &f.sh {
                    shape::Sh::Prim(a, b) => Some((a.clone(), b.clone())),
                    _ => None,
                })
            }
            shape::Sh::Struct(_, fs) => fs.iter().find_map(|f| kind_leaf(&f.sh)),
            shape::Sh::Tuple(_, e) | shape::Sh::Newtype(_, e) => kind_leaf(e),
            shape::Sh::Enum(_, vs) => vs.iter().flatten().find_map(|(_, k)| match k {
                shape::Vk::Newtype(e) => kind_leaf(e),
                shape::Vk::Struct(fs) => fs.iter().find_map(|f| kind_leaf(&f.sh)),
                shape::Vk::Unit => None,
            }),
            _ => None,
        }
    }
    let (ks, kd) = kind_leaf(&rsm).unwrap_or(("?".into(), "?".into()));
    // which prefixes of each struct's ARRAY form the real Deserialize impls accept (visit_seq)
    let cm_seq = shape::seq_table::<ClientMessage<String>>(&cm);
    let rs_seq = shape::seq_table::<Response<String>>(&rsm);
    format!(
        "Definition client_message_shape : shape :=\n  {}.\nDefinition response_shape : shape :=\n  {}.\nDefinition kind_ser_prim : prim := {}.\nDefinition kind_de_prim : prim := {}.\nDefinition cm_seq_table : list (string * string * list bool) :=\n  {}.\nDefinition resp_seq_table : list (string * string * list bool) :=\n  {}.\n",
        shape::coq_shape(&cm),
        shape::coq_shape(&rsm),
        shape::prim_coq(&ks),
        shape::prim_coq(&kd),
        shape::coq_seq_table(&cm_seq),
        shape::coq_seq_table(&rs_seq)
    )
}

// ------------------------------------------------------------------------------- dispatch from main

fn arg(args: &[String], name: &str) -> Option<String> {
    args.iter().position(|a| a == name).and_then(|i| args.get(i + 1).cloned())
}

/// Handles `wire shape`, `c15 gen|run|sweep`. Returns false if the command is not one of them.
pub fn dispatch(args: &[String]) -> bool {
    use std::io::Write;
    let prop = args[1].as_str();
    let cmd = args[2].as_str();
    let seed: u64 = arg(args, "--seed").and_then(|s| s.parse().ok()).unwrap_or(1);
    let count: usize = arg(args, "--count").and_then(|s| s.parse().ok()).unwrap_or(100);
    match (prop, cmd) {
        ("wire", "shape") => {
            print!("{}", shape_definitions());
            true
        }
        ("c15", "gen") => {
            let mut rng = Rng::new(seed);
            let stdout = std::io::stdout();
            let mut w = stdout.lock();
            for _ in 0..count {
                writeln!(w, "{}", show(&gen(&mut rng))).unwrap();
            }
            true
        }
        ("c15", "sweep") => {
            let stdout = std::io::stdout();
            let mut w = stdout.lock();
            sweep(|s| writeln!(w, "{}", show(&s)).unwrap());
            true
        }
        ("c15", "run") => {
            let input = arg(args, "--in").expect("--in");
            let out = arg(args, "--out").expect("--out");
            let text = std::fs::read_to_string(input).expect("read scripts");
            let cases: Vec<Case> = text
                .lines()
                .filter(|l| !l.trim().is_empty() && !l.starts_with('#'))
                .filter_map(parse)
                .map(|s| to_case(&s))
                .collect();
            crate::exec::write_cases(&out, &cases);
            true
        }
        ("c07", "gen") => {
            let mut rng = Rng::new(seed);
            let stdout = std::io::stdout();
            let mut w = stdout.lock();
            for _ in 0..count {
                writeln!(w, "{}", crate::c07::show(&crate::c07::gen(&mut rng))).unwrap();
            }
            true
        }
        ("c07", "sweep") => {
            let stdout = std::io::stdout();
            let mut w = stdout.lock();
            crate::c07::sweep(|s| writeln!(w, "{}", crate::c07::show(&s)).unwrap());
            true
        }
        ("c07", "run") => {
            let input = arg(args, "--in").expect("--in");
            let out = arg(args, "--out").expect("--out");
            let text = std::fs::read_to_string(input).expect("read scripts");
            let cases: Vec<Case> = text
                .lines()
                .filter(|l| !l.trim().is_empty() && !l.starts_with('#'))
                .filter_map(crate::c07::parse)
                .map(|s| crate::c07::to_case(&s))
                .collect();
            crate::exec::write_cases(&out, &cases);
            true
        }
        ("c16", "gen") => {
            let wv = args.iter().any(|a| a == "--wrong-variant");
            let mut rng = Rng::new(seed);
            let stdout = std::io::stdout();
            let mut w = stdout.lock();
            for _ in 0..count {
                writeln!(w, "{}", crate::c16::show(&crate::c16::gen(&mut rng, wv))).unwrap();
            }
            true
        }
        ("c16", "sweep") => {
            let stdout = std::io::stdout();
            let mut w = stdout.lock();
            crate::c16::sweep(|s| writeln!(w, "{}", crate::c16::show(&s)).unwrap());
            true
        }
        ("c16", "run") => {
            let wv = args.iter().any(|a| a == "--wrong-variant");
            let input = arg(args, "--in").expect("--in");
            let out = arg(args, "--out").expect("--out");
            let text = std::fs::read_to_string(input).expect("read scripts");
            let cases: Vec<Case> = text
                .lines()
                .filter(|l| !l.trim().is_empty() && !l.starts_with('#'))
                .filter_map(crate::c16::parse)
                .map(|s| crate::c16::to_case(&s, wv))
                .collect();
            crate::exec::write_cases(&out, &cases);
            true
        }
        _ => false,
    }
}
