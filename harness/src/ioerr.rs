//! C09, part `ioerr`: a failure of the BYTE STREAM under the shipped serde transport must come out
//! of the transport's `Stream` as an error item (of the same `io::ErrorKind`), after every message
//! whose bytes had arrived in full - not as a clean end-of-stream, which tarpc's client and server
//! would take for an orderly shutdown (no `ChannelError::Read`, outstanding calls never told).
//!
//! Script: `c=<b|j>,k=<kind index>,cut=<bytes of a further, incomplete frame>,rd=<sizes>|m<id> m<id> ...`
//! The messages are written by the real transport into a buffer; the reading end is the real
//! `serde_transport::new(Framed::new(reader, LengthDelimitedCodec::new()), codec)` over a reader that
//! hands the bytes out in the scripted chunk sizes (0 = one Pending) and then fails every read with
//! the scripted kind.
use crate::exec::{coq_list, Case};
use crate::rng::Rng;
use futures::{Sink, Stream};
use std::io;
use std::pin::Pin;
use std::task::{Context, Poll};
use tarpc::Response;
use tokio::io::{AsyncRead, AsyncWrite, ReadBuf};
use tokio_util::codec::{Framed, LengthDelimitedCodec};

pub const KINDS: [io::ErrorKind; 10] = [
    io::ErrorKind::ConnectionReset,
    io::ErrorKind::ConnectionAborted,
    io::ErrorKind::BrokenPipe,
    io::ErrorKind::TimedOut,
    io::ErrorKind::UnexpectedEof,
    io::ErrorKind::Other,
    io::ErrorKind::NotConnected,
    io::ErrorKind::PermissionDenied,
    io::ErrorKind::InvalidData,
    io::ErrorKind::InvalidInput,
];

pub struct Script {
    pub json: bool,
    pub kind: usize,
    pub cut: usize,
    pub rd: Vec<usize>,
    pub ids: Vec<u64>,
}

pub fn parse(line: &str) -> Option<Script> {
    let (cfg, rest) = line.trim().split_once('|')?;
    let mut s = Script { json: false, kind: 0, cut: 0, rd: vec![], ids: vec![] };
    for kv in cfg.split(',') {
        let (k, v) = kv.trim().split_once('=')?;
        match k {
            "c" => s.json = v == "j",
            "k" => s.kind = v.parse::<usize>().ok()? % KINDS.len(),
            "cut" => s.cut = v.parse().ok()?,
            "rd" => s.rd = v.split('.').filter_map(|x| x.parse().ok()).collect(),
            _ => return None,
        }
    }
    for t in rest.split_whitespace() {
        s.ids.push(t.strip_prefix('m')?.parse().ok()?);
    }
    Some(s)
}

pub fn show(s: &Script) -> String {
    format!(
        "c={},k={},cut={},rd={}|{}",
        if s.json { "j" } else { "b" },
        s.kind,
        s.cut,
        s.rd.iter().map(|x| x.to_string()).collect::<Vec<_>>().join("."),
        s.ids.iter().map(|i| format!("m{i}")).collect::<Vec<_>>().join(" ")
    )
}

struct Buf(Vec<u8>);

impl AsyncWrite for Buf {
    fn poll_write(mut self: Pin<&mut Self>, _: &mut Context<'_>, b: &[u8]) -> Poll<io::Result<usize>> {
        self.0.extend_from_slice(b);
        Poll::Ready(Ok(b.len()))
    }
    fn poll_flush(self: Pin<&mut Self>, _: &mut Context<'_>) -> Poll<io::Result<()>> {
        Poll::Ready(Ok(()))
    }
    fn poll_shutdown(self: Pin<&mut Self>, _: &mut Context<'_>) -> Poll<io::Result<()>> {
        Poll::Ready(Ok(()))
    }
}

impl AsyncRead for Buf {
    fn poll_read(self: Pin<&mut Self>, _: &mut Context<'_>, _: &mut ReadBuf<'_>) -> Poll<io::Result<()>> {
        Poll::Ready(Ok(()))
    }
}

/// hands out `data` in the cyclic chunk sizes `rd` (0 = one Pending), then fails every read
struct FaultyReader {
    data: Vec<u8>,
    pos: usize,
    rd: Vec<usize>,
    rd_pos: usize,
    kind: io::ErrorKind,
    failed_reads: usize,
}

impl AsyncRead for FaultyReader {
    fn poll_read(mut self: Pin<&mut Self>, cx: &mut Context<'_>, buf: &mut ReadBuf<'_>) -> Poll<io::Result<()>> {
        if self.pos >= self.data.len() {
            self.failed_reads += 1;
            return Poll::Ready(Err(io::Error::new(self.kind, "scripted read failure")));
        }
        let k = if self.rd.is_empty() { usize::MAX } else { self.rd[self.rd_pos % self.rd.len()] };
        self.rd_pos += 1;
        if k == 0 {
            cx.waker().wake_by_ref();
            return Poll::Pending;
        }
        let n = k.min(self.data.len() - self.pos).min(buf.remaining());
        let p = self.pos;
        buf.put_slice(&self.data[p..p + n]);
        self.pos += n;
        Poll::Ready(Ok(()))
    }
}

impl AsyncWrite for FaultyReader {
    fn poll_write(self: Pin<&mut Self>, _: &mut Context<'_>, b: &[u8]) -> Poll<io::Result<usize>> {
        Poll::Ready(Ok(b.len()))
    }
    fn poll_flush(self: Pin<&mut Self>, _: &mut Context<'_>) -> Poll<io::Result<()>> {
        Poll::Ready(Ok(()))
    }
    fn poll_shutdown(self: Pin<&mut Self>, _: &mut Context<'_>) -> Poll<io::Result<()>> {
        Poll::Ready(Ok(()))
    }
}

fn kind_code(k: io::ErrorKind) -> usize {
    KINDS.iter().position(|x| *x == k).unwrap_or(99)
}

macro_rules! run_codec {
    ($codec:ident, $s:expr) => {{
        let s: &Script = $s;
        let waker = futures::task::noop_waker();
        let mut cx = Context::from_waker(&waker);
        // the bytes: written by the real transport
        let mut w = tarpc::serde_transport::new(
            Framed::new(Buf(vec![]), LengthDelimitedCodec::new()),
            tokio_serde::formats::$codec::<Response<u64>, Response<u64>>::default(),
        );
        for id in &s.ids {
            let _ = Pin::new(&mut w).poll_ready(&mut cx);
            let _ = Pin::new(&mut w).start_send(Response { request_id: *id, message: Ok(*id ^ 0x5a5a) });
            let _ = Pin::new(&mut w).poll_flush(&mut cx);
        }
        let mut data = w.get_ref().0.clone();
        let complete = data.len();
        if s.cut > 0 {
            // the beginning of one more frame
            let _ = Pin::new(&mut w).poll_ready(&mut cx);
            let _ = Pin::new(&mut w).start_send(Response { request_id: 77, message: Ok(77) });
            let _ = Pin::new(&mut w).poll_flush(&mut cx);
            let all = w.get_ref().0.clone();
            let extra = &all[complete..];
            let k = s.cut.min(extra.len().saturating_sub(1));
            data.extend_from_slice(&extra[..k]);
        }
        let budget = 100 + 4 * data.len() * (s.rd.len() + 2);
        let rdp: Vec<usize> = if s.rd.iter().any(|&x| x > 0) { s.rd.clone() } else { vec![] };
        let reader = FaultyReader { data, pos: 0, rd: rdp, rd_pos: 0, kind: KINDS[s.kind], failed_reads: 0 };
        let mut r = tarpc::serde_transport::new(
            Framed::new(reader, LengthDelimitedCodec::new()),
            tokio_serde::formats::$codec::<Response<u64>, Response<u64>>::default(),
        );
        let mut obs: Vec<String> = vec![];
        let mut tags: Vec<String> = vec![];
        let mut after = 0;
        for _ in 0..budget {
            match Pin::new(&mut r).poll_next(&mut cx) {
                Poll::Pending => {
                    if !tags.contains(&"pending".to_string()) {
                        tags.push("pending".into());
                    }
                }
                Poll::Ready(None) => {
                    obs.push("IEnd".into());
                    break;
                }
                Poll::Ready(Some(Ok(m))) => {
                    let ok = matches!(m.message, Ok(v) if v == m.request_id ^ 0x5a5a);
                    obs.push(if ok { format!("IRecv {}%N", m.request_id) } else { "IGarbled".into() });
                }
                Poll::Ready(Some(Err(e))) => {
                    // serde_transport wraps every error of the framed stream: io::Error::new(Other, e)
                    let inner = e
                        .get_ref()
                        .and_then(|i| i.downcast_ref::<io::Error>())
                        .map_or(98, |i| kind_code(i.kind()));
                    obs.push(format!("IErr {}%N {}%N", kind_code(e.kind()), inner));
                    after += 1;
                    if after > 2 {
                        break;
                    }
                }
            }
        }
        if r.get_ref().failed_reads > 0 {
            tags.push("read-failed".into());
        }
        if s.cut > 0 {
            tags.push("partial-frame-before-failure".into());
        }
        (obs, tags)
    }};
}

pub fn to_case(s: &Script) -> Case {
    let (obs, mut tags) = if s.json { run_codec!(Json, s) } else { run_codec!(Bincode, s) };
    tags.push(if s.json { "json".into() } else { "bincode".into() });
    tags.push(format!("kind:{:?}", KINDS[s.kind]));
    let ids: Vec<String> = s.ids.iter().map(|i| format!("{i}%N")).collect();
    Case { cfg: format!("{}%N", s.kind), ops: coq_list(&ids), obs: coq_list(&obs), tags, nops: s.ids.len() + 1 }
}

pub fn gen(rng: &mut Rng) -> Script {
    let n = rng.range(0, 6) as usize;
    let ids = (0..n)
        .map(|_| match rng.below(4) {
            0 => rng.below(3),
            1 => 250 + rng.below(3),
            2 => u64::MAX - rng.below(2),
            _ => rng.next() >> rng.below(60),
        })
        .collect();
    let nrd = rng.range(0, 4) as usize;
    let rd = (0..nrd).map(|_| *rng.pick(&[0usize, 1, 1, 2, 3, 4, 5, 7, 64])).collect();
    Script {
        json: rng.chance(1, 2),
        kind: rng.below(KINDS.len() as u64) as usize,
        cut: if rng.chance(1, 2) { 0 } else { rng.range(1, 12) as usize },
        rd,
        ids,
    }
}

/// every kind x both codecs x {0, 1, 3 messages} x {no partial frame, 2 bytes, 6 bytes}
pub fn sweep(mut f: impl FnMut(Script)) {
    for json in [false, true] {
        for kind in 0..KINDS.len() {
            for n in [0usize, 1, 3] {
                for cut in [0usize, 2, 6] {
                    for rd in [vec![], vec![1], vec![0, 3]] {
                        f(Script { json, kind, cut, rd, ids: (0..n as u64).map(|i| i * 251).collect() });
                    }
                }
            }
        }
    }
}
