//! Wake-driven server runs (C02, server half).  Tasks: the `Requests` stream and one `execute()`
//! future per yielded request (started at once, as tarpc's `execute` does).  A task is polled
//! ONLY if its own real waker fired (`exec::TaskWaker`); `S` (settle) polls woken tasks, stream
//! first, then execute futures in index order, until no task is woken.  The model
//! (coq/ServerWake.v) polls every live task round after round; a lost wakeup in the code makes
//! the real system stall where the model makes progress.
//!
//! Wake sources that belong to tarpc / tokio / futures and are never forced by the harness:
//! the response queue (handler -> Requests), response permits (Requests -> blocked senders), the
//! server-side cancel queue (ResponseGuard drop -> channel), DelayQueue timers (fired by
//! `vclock::advance` through tokio's time driver), `AbortHandle::abort` (channel -> execute), the
//! closed receiver (channel dropped -> blocked senders).  The scripted transport wakes whoever its
//! last Pending answer registered.  Forced: arming a transport fault wakes the stream task (a fault
//! is an event of the environment), and a yield re-wakes the stream task (the application's
//! `while let Some(r) = stream.next().await` loop polls again at once).  Scripted handlers have a
//! wake source of their own: `G<k>` wakes the waker handler k registered.
//!
//! Script: `L=<n|->,B=<buf>,C=<cap>,K=<c|i>|tok tok ...` with the tokens of srv.rs
//!   R<id>.<dl>.<tr>.<body>  X<id>.<tr>  E  r0 r1 f0 f1  Fr Fs Ff Fn  D<k>  Q<k>  Z  A<dt>
//! (no P, H, Y, c) plus
//!   G<k>=<v>  G<k>!   handler k may proceed: it completes with Ok(v) / a ServerError when polled next
//!   S                 settle
use crate::exec::{coq_list, Case, TaskWaker};
use crate::rng::Rng;
use crate::srv::{self, Body, Chan, Op, Recv, Script, Sent, Step, Tr, THROTTLE_TEXT};
use crate::stransport::{BudgetExceeded, Call, NextRes, STransport};
use crate::vclock;
use std::cell::RefCell;
use std::collections::{BTreeMap, BTreeSet};
use std::future::Future;
use std::panic::{catch_unwind, AssertUnwindSafe};
use std::pin::Pin;
use std::rc::Rc;
use std::task::{Context, Poll, Waker};
use std::time::{Duration, Instant};
use tarpc::server::{serve, BaseChannel, Channel, Config};
use tarpc::{ClientMessage, Response, ServerError};

#[derive(Clone, Debug, PartialEq)]
pub enum WOp {
    Base(Op),
    Release(usize, Step),
    Settle,
}

#[derive(Clone, Debug)]
pub struct WScript {
    pub cfg: Script, // ops unused
    pub ops: Vec<WOp>,
}

pub fn parse(line: &str) -> Option<WScript> {
    let (hdr, rest) = line.trim().split_once('|')?;
    let cfg = srv::parse(&format!("{hdr}|"))?;
    let mut ops = vec![];
    for t in rest.split_whitespace() {
        if t == "S" {
            ops.push(WOp::Settle);
        } else if let Some(a) = t.strip_prefix('G') {
            if let Some(k) = a.strip_suffix('!') {
                ops.push(WOp::Release(k.parse().ok()?, Step::Fail));
            } else {
                let (k, v) = a.split_once('=')?;
                ops.push(WOp::Release(k.parse().ok()?, Step::Finish(v.parse().ok()?)));
            }
        } else {
            let s = srv::parse(&format!("{hdr}|{t}"))?;
            let o = s.ops.into_iter().next()?;
            match o {
                Op::Poll | Op::HPoll(..) | Op::DropY(_) | Op::SetClose(_) => return None,
                Op::Fail(crate::stransport::Method::Close) => return None,
                o => ops.push(WOp::Base(o)),
            }
        }
    }
    Some(WScript { cfg, ops })
}

pub fn show_wop(o: &WOp) -> String {
    match o {
        WOp::Base(o) => srv::show_op(o),
        WOp::Release(k, Step::Finish(v)) => format!("G{k}={v}"),
        WOp::Release(k, _) => format!("G{k}!"),
        WOp::Settle => "S".into(),
    }
}

pub fn show(s: &WScript) -> String {
    let hdr = srv::show_srv(&Script { ops: vec![], ..s.cfg.clone() });
    let toks: Vec<String> = s.ops.iter().map(show_wop).collect();
    format!("{}{}", hdr, toks.join(" "))
}

fn coq_wop(o: &WOp) -> String {
    match o {
        WOp::Base(o) => format!("WOp ({})", srv::coq_op(o)),
        WOp::Release(k, Step::Finish(v)) => format!("WRelease {k} (SFinish {v})"),
        WOp::Release(k, _) => format!("WRelease {k} SFail"),
        WOp::Settle => "WSettle".into(),
    }
}

// ------------------------------------------------------------------------------- handlers

struct WCtl {
    step: Step,
    waker: Option<Waker>,
    polled: bool,
    completed: bool,
    result: Option<Result<u64, ()>>,
    dropped: bool,
}

struct WakeHandler {
    ctl: Rc<RefCell<WCtl>>,
}

impl Future for WakeHandler {
    type Output = Result<u64, ServerError>;
    fn poll(self: Pin<&mut Self>, cx: &mut Context<'_>) -> Poll<Self::Output> {
        let mut c = self.ctl.borrow_mut();
        c.polled = true;
        match c.step {
            Step::Run => {
                c.waker = Some(cx.waker().clone());
                Poll::Pending
            }
            Step::Finish(v) => {
                c.completed = true;
                c.result = Some(Ok(v));
                Poll::Ready(Ok(v))
            }
            Step::Fail => {
                c.completed = true;
                c.result = Some(Err(()));
                Poll::Ready(Err(ServerError::new(std::io::ErrorKind::Other, "handler failed".into())))
            }
        }
    }
}

impl Drop for WakeHandler {
    fn drop(&mut self) {
        let mut c = self.ctl.borrow_mut();
        if !c.completed {
            c.dropped = true;
        }
    }
}

struct Ex {
    fut: Option<Pin<Box<dyn Future<Output = ()>>>>,
    ctl: Rc<RefCell<WCtl>>,
    waker: TaskWaker,
    id: u64,
    dl: u64,
    saw_done: bool,
    saw_dropped: bool,
    waited: bool,
}

/// The real server under a wake-driven executor.
pub struct World {
    rt: Option<tokio::runtime::Runtime>,
    base: Instant,
    ctl: Tr,
    chan: Option<Chan>,
    swaker: TaskWaker,
    ended: bool,
    execs: Vec<Ex>,
    rel: BTreeMap<usize, Step>,
    pub now: u64,
    pub tags: BTreeSet<String>,
    limit: Option<usize>,
}

impl World {
    pub fn new(s: &Script) -> World {
        vclock::reset();
        let rt = vclock::runtime();
        let base = {
            let _g = rt.enter();
            Instant::now()
        };
        let show_sent = Box::new(|r: &Response<u64>| Sent {
            id: r.request_id,
            body: match &r.message {
                Ok(v) => Body::Ok(*v),
                Err(e) if e.kind == std::io::ErrorKind::WouldBlock && e.detail == THROTTLE_TEXT => Body::Throttle,
                Err(e) if e.kind == std::io::ErrorKind::Other && e.detail == "handler failed" => Body::HErr,
                Err(_) => Body::OtherErr,
            },
        });
        let show_recv = Box::new(move |m: &ClientMessage<u64>| match m {
            ClientMessage::Request(r) => Recv::Req {
                id: r.id,
                dl: srv::ms_since(base, r.context.deadline),
                tr: srv::trace_num(&r.context.trace_context),
                body: r.message,
            },
            ClientMessage::Cancel { trace_context, request_id } => {
                Recv::Cancel { id: *request_id, tr: srv::trace_num(trace_context) }
            }
            _ => Recv::Cancel { id: u64::MAX, tr: 0 },
        });
        let tr: Tr = STransport::new(s.cap, s.coupled, show_sent, show_recv);
        let ctl = tr.clone();
        let chan = {
            let _g = rt.enter();
            let basech = BaseChannel::new(Config { pending_response_buffer: s.buf }, tr);
            Some(match s.limit {
                None => Chan::Plain(Box::pin(basech.requests())),
                Some(l) => Chan::Lim(Box::pin(crate::srv::limited(basech, l, s.buf).requests())),
            })
        };
        let mut tags = BTreeSet::new();
        tags.insert(format!("buf{}", s.buf.min(3)));
        tags.insert(if s.coupled { "coupled".into() } else { "independent".into() });
        tags.insert(match s.cap {
            0 => "cap-unbounded".to_string(),
            1 => "cap1".to_string(),
            _ => "cap2+".to_string(),
        });
        tags.insert(match s.limit {
            None => "nolimit".to_string(),
            Some(0) => "limit0".to_string(),
            Some(_) => "limit".to_string(),
        });
        World {
            rt: Some(rt),
            base,
            ctl,
            chan,
            swaker: TaskWaker::new(),
            ended: false,
            execs: vec![],
            rel: BTreeMap::new(),
            now: 0,
            tags,
            limit: s.limit,
        }
    }

    pub fn alive(&self) -> bool {
        self.chan.is_some() && !self.ended
    }
    pub fn chan_alive(&self) -> bool {
        self.chan.is_some()
    }
    pub fn gauges(&self) -> (usize, usize) {
        self.chan.as_ref().map(|c| c.gauges()).unwrap_or((0, 0))
    }
    /// (index, id, deadline, released, handler completed) of every execute future still held
    pub fn live_execs(&self) -> Vec<(usize, u64, u64, bool, bool)> {
        self.execs
            .iter()
            .enumerate()
            .filter(|(_, e)| e.fut.is_some())
            .map(|(k, e)| (k, e.id, e.dl, self.rel.contains_key(&k), e.ctl.borrow().completed))
            .collect()
    }
    pub fn nexecs(&self) -> usize {
        self.execs.len()
    }
    pub fn sink_state(&self) -> (bool, bool, usize, usize) {
        let i = self.ctl.0.borrow();
        (i.ready, i.flushok, i.buffered, i.inbox.len())
    }

    fn gauges_obs(&self) -> String {
        match &self.chan {
            Some(c) => {
                let (a, b) = c.gauges();
                format!("WO [OGauges {a} {b}]")
            }
            None => "WO []".into(),
        }
    }

    /// Executes one op on the real code and returns its `wobs` term.
    pub fn apply(&mut self, op: &WOp) -> String {
        let rt = self.rt.take().expect("runtime");
        let r = {
            let _g = rt.enter();
            self.apply_in(op, &rt)
        };
        self.rt = Some(rt);
        r
    }

    fn apply_in(&mut self, op: &WOp, rt: &tokio::runtime::Runtime) -> String {
        match op {
            WOp::Settle => self.settle(),
            WOp::Release(k, st) => {
                self.rel.insert(*k, *st);
                if let Some(e) = self.execs.get(*k) {
                    let w = {
                        let mut c = e.ctl.borrow_mut();
                        if !c.completed {
                            c.step = *st;
                        }
                        c.waker.take()
                    };
                    if let Some(w) = w {
                        w.wake();
                    }
                }
                self.tags.insert("release".into());
                "WO []".into()
            }
            WOp::Base(o) => {
                let mut pre: Vec<String> = vec![];
                match o {
                    Op::Req { id, dl, tr, body } => {
                        self.ctl.deliver(ClientMessage::Request(srv::make_request(self.base, *id, *dl, *tr, *body)));
                    }
                    Op::Cancel { id, tr } => {
                        self.ctl.deliver(ClientMessage::Cancel { trace_context: srv::trace_ctx(*tr), request_id: *id });
                    }
                    Op::Eof => self.ctl.eof(),
                    Op::SetReady(b) => self.ctl.set_ready(*b),
                    Op::SetFlush(b) => self.ctl.set_flush(*b),
                    Op::Fail(m) => {
                        self.ctl.fail_next(*m);
                        // a fault is an event of the environment: the stream task gets to see it
                        self.swaker.waker.wake_by_ref();
                        self.tags.insert("fault-armed".into());
                    }
                    Op::Drain(k) => self.ctl.drain(*k),
                    Op::DropH(k) => {
                        if let Some(e) = self.execs.get_mut(*k) {
                            if let Some(f) = e.fut.take() {
                                let polled = e.ctl.borrow().polled;
                                drop(f);
                                if e.ctl.borrow().dropped && !e.saw_dropped && polled {
                                    e.saw_dropped = true;
                                    pre.push(format!("OHDropped {k}"));
                                }
                                self.tags.insert("drop-exec".into());
                            }
                        }
                    }
                    Op::DropChan => {
                        if self.chan.is_some() {
                            let inflight = self.gauges().0;
                            self.chan = None;
                            self.tags.insert(
                                if inflight > 0 { "drop-channel-with-inflight" } else { "drop-channel-idle" }.into(),
                            );
                        }
                    }
                    Op::Advance(d) => {
                        vclock::advance(rt, Duration::from_millis(*d));
                        self.now += *d;
                    }
                    _ => {}
                }
                match &self.chan {
                    Some(c) => {
                        let (a, b) = c.gauges();
                        pre.push(format!("OGauges {a} {b}"));
                        format!("WO {}", coq_list(&pre))
                    }
                    None => format!("WO {}", coq_list(&pre)),
                }
            }
        }
    }

    fn settle(&mut self) -> String {
        let mut ev: Vec<String> = vec![];
        let mut rounds = 0;
        self.tags.insert("settle".into());
        loop {
            rounds += 1;
            if rounds > 5000 {
                self.tags.insert("SETTLE-DIVERGES".into());
                return "WFuel".into();
            }
            let mut any = false;
            let alt = ALT_ORDER.load(std::sync::atomic::Ordering::Relaxed);
            // phase 0 = the Requests stream, phase 1 = the execute() futures; the alternative schedule
            // polls the woken execute() futures first, in descending index order, and the stream last
            for phase in if alt { [1, 0] } else { [0, 1] } {
            if phase == 0 && self.chan.is_some() && !self.ended && self.swaker.woken() {
                any = true;
                self.swaker.take();
                self.ctl.reset_budget();
                self.ctl.take_log();
                let before = self.gauges();
                let w = self.swaker.waker.clone();
                let mut cx = Context::from_waker(&w);
                let ch = self.chan.as_mut().unwrap();
                let r = catch_unwind(AssertUnwindSafe(|| ch.poll_next(&mut cx)));
                let log = self.ctl.take_log();
                let mut kept: Vec<String> = vec![];
                let mut ready_pending = false;
                for c in &log {
                    match c {
                        Call::Send(m, ok) => {
                            kept.push(format!("CSend ({}) {}", srv::coq_sent(m), if *ok { "SOk" } else { "SErr" }));
                            self.tags.insert(
                                if m.body == Body::Throttle { "settle-throttle" } else { "settle-resp-written" }.into(),
                            );
                        }
                        Call::Next(NextRes::Item(x)) => {
                            kept.push(format!("CNext (RItem ({}))", srv::coq_recv(x)));
                            if let Recv::Cancel { .. } = x {
                                self.tags.insert("settle-cancel-read".into());
                            }
                        }
                        Call::Ready(crate::stransport::TRes::Pending) => ready_pending = true,
                        _ => {}
                    }
                }
                if !kept.is_empty() {
                    ev.push(format!("OCalls {}", coq_list(&kept)));
                }
                match r {
                    Ok(Poll::Ready(Some(Ok(ifr)))) => {
                        let k = self.execs.len();
                        let rq = ifr.get();
                        let (id, dl) = (rq.id, srv::ms_since(self.base, rq.context.deadline));
                        let ytr = srv::trace_num(&rq.context.trace_context);
                        ev.push(format!("OYield {k} {id} {dl} {ytr} {}", rq.message));
                        let step = self.rel.get(&k).cloned().unwrap_or(Step::Run);
                        let hc = Rc::new(RefCell::new(WCtl {
                            step,
                            waker: None,
                            polled: false,
                            completed: false,
                            result: None,
                            dropped: false,
                        }));
                        let hc2 = hc.clone();
                        let fut: Pin<Box<dyn Future<Output = ()>>> =
                            Box::pin(ifr.execute(serve(move |_ctx, _req: u64| WakeHandler { ctl: hc2 })));
                        self.execs.push(Ex {
                            fut: Some(fut),
                            ctl: hc,
                            waker: TaskWaker::new(),
                            id,
                            dl,
                            saw_done: false,
                            saw_dropped: false,
                            waited: false,
                        });
                        // the application's accept loop polls the stream again at once
                        self.swaker.waker.wake_by_ref();
                        self.tags.insert("settle-yield".into());
                    }
                    Ok(Poll::Ready(Some(Err(e)))) => {
                        ev.push(format!("OStreamErr {}", srv::activity(&e)));
                        self.ended = true;
                        self.tags.insert("stream-err".into());
                    }
                    Ok(Poll::Ready(None)) => {
                        ev.push("OStreamEnd".into());
                        self.ended = true;
                        self.tags.insert("stream-end".into());
                    }
                    Ok(Poll::Pending) => {
                        if let Some(l) = self.limit {
                            if before.0 >= l && ready_pending {
                                self.tags.insert("limiter-blocked-on-sink".into());
                            }
                        }
                    }
                    Err(p) => {
                        self.tags.insert(
                            if p.downcast_ref::<BudgetExceeded>().is_some() { "budget-exceeded" } else { "panic" }.into(),
                        );
                        return "WFuel".into();
                    }
                }
            }
            let nex = if phase == 1 { self.execs.len() } else { 0 };
            for j in 0..nex {
                let k = if alt { nex - 1 - j } else { j };
                let woken = self.execs[k].fut.is_some() && self.execs[k].waker.woken();
                if !woken {
                    continue;
                }
                any = true;
                let e = &mut self.execs[k];
                e.waker.take();
                let w = e.waker.waker.clone();
                let mut cx = Context::from_waker(&w);
                let fut = e.fut.as_mut().unwrap();
                let r = catch_unwind(AssertUnwindSafe(|| fut.as_mut().poll(&mut cx)));
                let c = e.ctl.borrow();
                if c.completed && !e.saw_done {
                    e.saw_done = true;
                    ev.push(match c.result {
                        Some(Ok(v)) => format!("OHDone {k} (BOk {v})"),
                        _ => format!("OHDone {k} BErr"),
                    });
                    self.tags.insert("handler-done".into());
                }
                if c.dropped && !e.saw_dropped {
                    e.saw_dropped = true;
                    ev.push(format!("OHDropped {k}"));
                }
                match r {
                    Ok(Poll::Ready(())) => {
                        ev.push(format!("OExecReady {k}"));
                        if c.completed && !c.dropped {
                            if e.waited {
                                self.tags.insert("buffered-after-wait".into());
                            }
                        } else {
                            self.tags.insert("handler-aborted".into());
                            if self.now >= e.dl {
                                self.tags.insert("aborted-after-deadline".into());
                            }
                            if self.chan.is_none() {
                                self.tags.insert("aborted-by-channel-drop".into());
                            }
                        }
                        drop(c);
                        e.fut = None;
                    }
                    Ok(Poll::Pending) => {
                        if c.completed {
                            e.waited = true;
                            self.tags.insert("exec-waits-for-buffer".into());
                        }
                    }
                    Err(_) => {
                        self.tags.insert("panic".into());
                        return "WFuel".into();
                    }
                }
            }
            }
            if !any {
                break;
            }
        }
        if rounds > 3 {
            self.tags.insert("settle-3+rounds".into());
        }
        let (a, b) = self.gauges();
        format!("WS {} {a} {b}", coq_list(&ev))
    }
}

impl Drop for World {
    fn drop(&mut self) {
        // deterministic teardown inside the runtime context
        if let Some(rt) = self.rt.take() {
            {
                let _g = rt.enter();
                self.execs.clear();
                self.chan = None;
            }
            drop(rt);
        }
        vclock::off();
    }
}

/// `srvw run --order alt`: the second fair schedule of the wake-driven server driver (C02, part
/// server-wake-alt)
pub static ALT_ORDER: std::sync::atomic::AtomicBool = std::sync::atomic::AtomicBool::new(false);

pub fn run_impl(s: &WScript) -> (Vec<String>, Vec<String>) {
    let mut w = World::new(&s.cfg);
    let obs: Vec<String> = s.ops.iter().map(|o| w.apply(o)).collect();
    let tags = w.tags.iter().cloned().collect();
    (obs, tags)
}

pub fn to_case(s: &WScript) -> Case {
    let (obs, tags) = run_impl(s);
    let ops: Vec<String> = s.ops.iter().map(coq_wop).collect();
    Case { cfg: srv::cfg_term(&s.cfg), ops: coq_list(&ops), obs: coq_list(&obs), tags, nops: s.ops.len() }
}

// ------------------------------------------------------------------------------- generator

/// State-aware generation: the script is produced while the real code runs it.  External events
/// (deliveries, handler releases, sink changes, clock steps, drops), most of them followed by a
/// settle; explicit polls never occur.
pub fn gen(rng: &mut Rng) -> WScript {
    let limit = if rng.chance(2, 5) { Some(rng.weighted(&[1, 6, 4, 2]) as usize) } else { None };
    let cfg = Script {
        limit,
        buf: rng.range(1, 3) as usize,
        cap: if rng.chance(1, 3) { rng.range(1, 3) as usize } else { 0 },
        coupled: rng.chance(1, 2),
        ops: vec![],
    };
    let len = rng.range(8, 60) as usize;
    let settle_num = *rng.pick(&[1u64, 2, 3, 3, 3, 4]); // settle after an op with probability settle_num/4
    let mut w = World::new(&cfg);
    let mut ops: Vec<WOp> = vec![];
    let mut next_id: u64 = 1;
    let mut sent_ids: Vec<u64> = vec![];
    let mut eof = false;
    let mut faults = 0;
    while ops.len() < len {
        let live = w.live_execs();
        let (ready, flushok, buffered, _inbox) = w.sink_state();
        let unreleased: Vec<usize> = live.iter().filter(|x| !x.3).map(|x| x.0).collect();
        let late = ops.len() * 3 >= len * 2 || (ops.len() * 2 >= len && rng.chance(1, 3));
        let wts: [u64; 12] = [
            if eof { 0 } else { 22 },                   // 0 request
            if eof { 0 } else { 8 },                    // 1 cancel
            if unreleased.is_empty() { 0 } else { 26 }, // 2 release
            8,                                          // 3 sink ready toggle
            4,                                          // 4 flush toggle
            if buffered > 0 { 6 } else { 1 },           // 5 drain
            10,                                         // 6 advance
            if live.is_empty() { 0 } else { 4 },        // 7 drop exec
            if faults < 1 && late { 2 } else { 0 },     // 8 fault
            if eof || !late { 0 } else { 2 },           // 9 eof
            if w.chan_alive() && late { 1 } else { 0 }, // 10 drop channel
            6,                                          // 11 settle
        ];
        let op = match rng.weighted(&wts) {
            0 => {
                let id = if !live.is_empty() && rng.chance(1, 8) {
                    rng.pick(&live).1 // duplicate of a request in flight
                } else {
                    next_id += 1;
                    next_id - 1
                };
                let dl = match rng.below(6) {
                    0 => w.now + rng.range(0, 3),
                    1 | 2 => w.now + rng.range(5, 80),
                    _ => w.now + 10_000,
                };
                sent_ids.push(id);
                WOp::Base(Op::Req { id, dl, tr: rng.range(1, 9), body: rng.below(100) })
            }
            1 => {
                let id = if !live.is_empty() && rng.chance(3, 4) {
                    rng.pick(&live).1
                } else if !sent_ids.is_empty() && rng.chance(1, 2) {
                    *rng.pick(&sent_ids)
                } else {
                    900 + rng.below(5)
                };
                WOp::Base(Op::Cancel { id, tr: rng.range(1, 9) })
            }
            2 => {
                let k = *rng.pick(&unreleased);
                if rng.chance(1, 8) {
                    WOp::Release(k, Step::Fail)
                } else {
                    WOp::Release(k, Step::Finish(rng.below(1000)))
                }
            }
            3 => WOp::Base(Op::SetReady(!ready)),
            4 => WOp::Base(Op::SetFlush(!flushok)),
            5 => WOp::Base(Op::Drain(rng.range(1, 3) as usize)),
            6 => {
                let pend: Vec<u64> = live.iter().map(|x| x.2).filter(|d| *d > w.now && *d < w.now + 5000).collect();
                let d = if !pend.is_empty() && rng.chance(3, 4) {
                    let t = *rng.pick(&pend) - w.now;
                    match rng.below(3) {
                        0 => t.saturating_sub(1).max(1),
                        1 => t,
                        _ => t + 1,
                    }
                } else {
                    rng.range(1, 40)
                };
                WOp::Base(Op::Advance(d))
            }
            7 => WOp::Base(Op::DropH(rng.pick(&live).0)),
            8 => {
                faults += 1;
                WOp::Base(Op::Fail(*rng.pick(&[
                    crate::stransport::Method::Ready,
                    crate::stransport::Method::Send,
                    crate::stransport::Method::Flush,
                    crate::stransport::Method::Next,
                ])))
            }
            9 => {
                eof = true;
                WOp::Base(Op::Eof)
            }
            10 => WOp::Base(Op::DropChan),
            _ => WOp::Settle,
        };
        let is_settle = op == WOp::Settle;
        w.apply(&op);
        ops.push(op);
        if !is_settle && rng.chance(settle_num, 4) {
            w.apply(&WOp::Settle);
            ops.push(WOp::Settle);
        }
    }
    // leave the sink writable and settle: the final state is the one clause (d) speaks about
    if rng.chance(2, 3) {
        for o in [WOp::Base(Op::SetReady(true)), WOp::Base(Op::SetFlush(true)), WOp::Base(Op::Drain(3))] {
            w.apply(&o);
            ops.push(o);
        }
    }
    w.apply(&WOp::Settle);
    ops.push(WOp::Settle);
    WScript { cfg, ops }
}

/// Bounded-exhaustive sweep: every sequence of `depth` events from a small alphabet, each event
/// followed by a settle, over a few configurations.
pub fn sweep(mut f: impl FnMut(WScript)) {
    let alpha: Vec<WOp> = vec![
        WOp::Base(Op::Req { id: 1, dl: 100, tr: 7, body: 5 }),
        WOp::Base(Op::Req { id: 2, dl: 10_000, tr: 4, body: 6 }),
        WOp::Base(Op::Cancel { id: 1, tr: 7 }),
        WOp::Release(0, Step::Finish(9)),
        WOp::Release(1, Step::Finish(8)),
        WOp::Base(Op::SetReady(false)),
        WOp::Base(Op::SetReady(true)),
        WOp::Base(Op::Advance(100)),
        WOp::Base(Op::DropH(0)),
    ];
    let cfgs = [
        Script { limit: None, buf: 1, cap: 0, coupled: true, ops: vec![] },
        Script { limit: Some(1), buf: 1, cap: 0, coupled: true, ops: vec![] },
        Script { limit: None, buf: 1, cap: 1, coupled: true, ops: vec![] },
    ];
    let depth = 4;
    let n = alpha.len();
    let total = n.pow(depth as u32);
    for cfg in cfgs.iter() {
        for code in 0..total {
            let mut c = code;
            let mut ops = vec![];
            for _ in 0..depth {
                ops.push(alpha[c % n].clone());
                ops.push(WOp::Settle);
                c /= n;
            }
            f(WScript { cfg: cfg.clone(), ops });
        }
    }
}
