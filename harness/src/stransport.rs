//! The scripted transport: the Rust twin of `stransport` in coq/Transport.v. Every answer is
//! under remote control of the script; every call tarpc makes is logged with its answer.
//! Shared between the code under test (which owns a handle) and the driver (which owns another).
use futures::{Sink, Stream};
use std::cell::RefCell;
use std::collections::VecDeque;
use std::io;
use std::pin::Pin;
use std::rc::Rc;
use std::task::{Context, Poll, Waker};

#[derive(Clone, Copy, Debug, PartialEq)]
pub enum Method {
    Ready,
    Send,
    Flush,
    Close,
    Next,
}

#[derive(Clone, Copy, Debug, PartialEq)]
pub enum TRes {
    Ok,
    Err,
    Pending,
}

impl TRes {
    pub fn coq(self) -> &'static str {
        match self {
            TRes::Ok => "TOk",
            TRes::Err => "TErr",
            TRes::Pending => "TPending",
        }
    }
}

/// One logged call. `S` = what was written, `R` = what was read.
#[derive(Clone, Debug)]
pub enum Call<S, R> {
    Ready(TRes),
    Send(S, bool),
    Flush(TRes),
    Close(TRes),
    Next(NextRes<R>),
}

#[derive(Clone, Debug)]
pub enum NextRes<R> {
    Item(R),
    Err,
    Eof,
    Pending,
}

pub struct Inner<SinkItem, Item, S, R> {
    pub ready: bool,
    pub flushok: bool,
    pub closeok: bool,
    pub cap: usize,
    pub coupled: bool,
    pub buffered: usize,
    pub fail: [bool; 5],
    pub inbox: VecDeque<Item>,
    pub eof: bool,
    pub log: Vec<Call<S, R>>,
    /// every transport call made (never cleared): the harness aborts a poll that exceeds a budget
    pub calls_total: usize,
    pub call_budget: usize,
    pub show_sent: Box<dyn Fn(&SinkItem) -> S>,
    pub show_recv: Box<dyn Fn(&Item) -> R>,
    /// wakers registered by Pending answers (wake-driven mode)
    pub w_ready: Option<Waker>,
    pub w_flush: Option<Waker>,
    pub w_close: Option<Waker>,
    pub w_next: Option<Waker>,
}

pub struct STransport<SinkItem, Item, S, R>(pub Rc<RefCell<Inner<SinkItem, Item, S, R>>>);

impl<SinkItem, Item, S, R> Clone for STransport<SinkItem, Item, S, R> {
    fn clone(&self) -> Self {
        STransport(self.0.clone())
    }
}

/// Raised (as a panic payload) when one poll makes more transport calls than the budget: the
/// code under test is spinning inside a single poll.
pub struct BudgetExceeded;

fn idx(m: Method) -> usize {
    match m {
        Method::Ready => 0,
        Method::Send => 1,
        Method::Flush => 2,
        Method::Close => 3,
        Method::Next => 4,
    }
}

impl<SinkItem, Item, S, R> STransport<SinkItem, Item, S, R> {
    pub fn new(
        cap: usize,
        coupled: bool,
        show_sent: Box<dyn Fn(&SinkItem) -> S>,
        show_recv: Box<dyn Fn(&Item) -> R>,
    ) -> Self {
        STransport(Rc::new(RefCell::new(Inner {
            ready: true,
            flushok: true,
            closeok: true,
            cap,
            coupled,
            buffered: 0,
            fail: [false; 5],
            inbox: VecDeque::new(),
            eof: false,
            log: vec![],
            calls_total: 0,
            call_budget: 10_000,
            show_sent,
            show_recv,
            w_ready: None,
            w_flush: None,
            w_close: None,
            w_next: None,
        })))
    }

    pub fn take_log(&self) -> Vec<Call<S, R>> {
        std::mem::take(&mut self.0.borrow_mut().log)
    }

    pub fn reset_budget(&self) {
        self.0.borrow_mut().calls_total = 0;
    }

    // ---- remote control (mirrors s_control) ----
    pub fn deliver(&self, x: Item) {
        let mut i = self.0.borrow_mut();
        if !i.eof {
            i.inbox.push_back(x);
            if let Some(w) = i.w_next.take() {
                w.wake();
            }
        }
    }
    pub fn eof(&self) {
        let mut i = self.0.borrow_mut();
        i.eof = true;
        if let Some(w) = i.w_next.take() {
            w.wake();
        }
    }
    pub fn set_ready(&self, b: bool) {
        let mut i = self.0.borrow_mut();
        i.ready = b;
        if b && (i.cap == 0 || i.buffered < i.cap) {
            if let Some(w) = i.w_ready.take() {
                w.wake();
            }
        }
    }
    pub fn set_flush(&self, b: bool) {
        let mut i = self.0.borrow_mut();
        i.flushok = b;
        if b {
            if let Some(w) = i.w_flush.take() {
                w.wake();
            }
        }
    }
    pub fn set_close(&self, b: bool) {
        let mut i = self.0.borrow_mut();
        i.closeok = b;
        if b {
            if let Some(w) = i.w_close.take() {
                w.wake();
            }
        }
    }
    pub fn fail_next(&self, m: Method) {
        let mut i = self.0.borrow_mut();
        i.fail[idx(m)] = true;
        // a fault is an event: whoever waits on that method must get to see it
        let w = match m {
            Method::Ready => i.w_ready.take(),
            Method::Flush => i.w_flush.take(),
            Method::Close => i.w_close.take(),
            Method::Next => i.w_next.take(),
            Method::Send => None,
        };
        if let Some(w) = w {
            w.wake();
        }
    }
    pub fn drain(&self, k: usize) {
        let mut i = self.0.borrow_mut();
        i.buffered = i.buffered.saturating_sub(k);
        if i.ready && (i.cap == 0 || i.buffered < i.cap) {
            if let Some(w) = i.w_ready.take() {
                w.wake();
            }
        }
    }

    fn count(i: &mut Inner<SinkItem, Item, S, R>) {
        i.calls_total += 1;
        if i.calls_total > i.call_budget {
            std::panic::panic_any(BudgetExceeded);
        }
    }
}

fn err() -> io::Error {
    io::Error::new(io::ErrorKind::Other, "scripted fault")
}

impl<SinkItem, Item, S, R> Stream for STransport<SinkItem, Item, S, R> {
    type Item = io::Result<Item>;
    fn poll_next(self: Pin<&mut Self>, cx: &mut Context<'_>) -> Poll<Option<Self::Item>> {
        let mut i = self.0.borrow_mut();
        Self::count(&mut i);
        if i.fail[4] {
            i.fail[4] = false;
            i.log.push(Call::Next(NextRes::Err));
            return Poll::Ready(Some(Err(err())));
        }
        if let Some(x) = i.inbox.pop_front() {
            let shown = (i.show_recv)(&x);
            i.log.push(Call::Next(NextRes::Item(shown)));
            return Poll::Ready(Some(Ok(x)));
        }
        if i.eof {
            i.log.push(Call::Next(NextRes::Eof));
            return Poll::Ready(None);
        }
        i.log.push(Call::Next(NextRes::Pending));
        i.w_next = Some(cx.waker().clone());
        Poll::Pending
    }
}

impl<SinkItem, Item, S, R> Sink<SinkItem> for STransport<SinkItem, Item, S, R> {
    type Error = io::Error;
    fn poll_ready(self: Pin<&mut Self>, cx: &mut Context<'_>) -> Poll<io::Result<()>> {
        let mut i = self.0.borrow_mut();
        Self::count(&mut i);
        if i.fail[0] {
            i.fail[0] = false;
            i.log.push(Call::Ready(TRes::Err));
            return Poll::Ready(Err(err()));
        }
        if i.ready && (i.cap == 0 || i.buffered < i.cap) {
            i.log.push(Call::Ready(TRes::Ok));
            return Poll::Ready(Ok(()));
        }
        i.log.push(Call::Ready(TRes::Pending));
        i.w_ready = Some(cx.waker().clone());
        Poll::Pending
    }
    fn start_send(self: Pin<&mut Self>, item: SinkItem) -> io::Result<()> {
        let mut i = self.0.borrow_mut();
        Self::count(&mut i);
        let shown = (i.show_sent)(&item);
        if i.fail[1] {
            i.fail[1] = false;
            i.log.push(Call::Send(shown, false));
            return Err(err());
        }
        i.buffered += 1;
        i.log.push(Call::Send(shown, true));
        Ok(())
    }
    fn poll_flush(self: Pin<&mut Self>, cx: &mut Context<'_>) -> Poll<io::Result<()>> {
        let mut i = self.0.borrow_mut();
        Self::count(&mut i);
        if i.fail[2] {
            i.fail[2] = false;
            i.log.push(Call::Flush(TRes::Err));
            return Poll::Ready(Err(err()));
        }
        if i.flushok {
            if i.coupled {
                i.buffered = 0;
                if i.ready {
                    if let Some(w) = i.w_ready.take() {
                        w.wake();
                    }
                }
            }
            i.log.push(Call::Flush(TRes::Ok));
            return Poll::Ready(Ok(()));
        }
        i.log.push(Call::Flush(TRes::Pending));
        i.w_flush = Some(cx.waker().clone());
        Poll::Pending
    }
    fn poll_close(self: Pin<&mut Self>, cx: &mut Context<'_>) -> Poll<io::Result<()>> {
        let mut i = self.0.borrow_mut();
        Self::count(&mut i);
        if i.fail[3] {
            i.fail[3] = false;
            i.log.push(Call::Close(TRes::Err));
            return Poll::Ready(Err(err()));
        }
        if i.closeok {
            i.log.push(Call::Close(TRes::Ok));
            return Poll::Ready(Ok(()));
        }
        i.log.push(Call::Close(TRes::Pending));
        i.w_close = Some(cx.waker().clone());
        Poll::Pending
    }
}

/// Renders a call log as a Coq list of `tcall`s; `s`/`r` print the written/read items.
pub fn coq_calls<S, R>(log: &[Call<S, R>], s: impl Fn(&S) -> String, r: impl Fn(&R) -> String) -> String {
    let items: Vec<String> = log
        .iter()
        .map(|c| match c {
            Call::Ready(x) => format!("CReady {}", x.coq()),
            Call::Send(m, ok) => format!("CSend ({}) {}", s(m), if *ok { "SOk" } else { "SErr" }),
            Call::Flush(x) => format!("CFlush {}", x.coq()),
            Call::Close(x) => format!("CClose {}", x.coq()),
            Call::Next(NextRes::Item(x)) => format!("CNext (RItem ({}))", r(x)),
            Call::Next(NextRes::Err) => "CNext RErr".into(),
            Call::Next(NextRes::Eof) => "CNext REof".into(),
            Call::Next(NextRes::Pending) => "CNext RPending".into(),
        })
        .collect();
    crate::exec::coq_list(&items)
}
