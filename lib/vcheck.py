"""Driver library for the tarpc verification checks (see DESIGN.md section 3).

One run of a property check:
  1. translator  -> coq/Generated.v            (properties that have generated side conditions)
  2. make        -> the .vo files the property needs (full .vo build), forbidden-word scan
  3. coqc        -> Properties/Cxx.v compiled once more into out/, `Print Assumptions` parsed
  4. cargo build -> harness against /repo's working tree with --cfg tarpc_verif
  5. harness     -> corpus + generated op scripts run on the real code -> cases (Coq terms)
  6. coqc shards -> model replay + monitor over the implementation's traces, inside Coq
  7. verdict, shrinking, known findings, evidence/Cxx.json
"""
import concurrent.futures as cf
import json
import os
import re
import shutil
import subprocess
import sys
import time

ROOT = os.path.dirname(os.path.dirname(os.path.abspath(__file__)))
COQ = os.path.join(ROOT, "coq")
# VERIF_OUT: a separate scratch directory, so that runs against several scratch checkouts do not collide
OUT = os.environ.get("VERIF_OUT") or os.path.join(ROOT, "out")
CACHE = os.path.join(ROOT, ".cache")
# The code under test is /repo. For developing the checks against seeded changes without
# disturbing /repo, VERIF_REPO may name another checkout: the harness is then built from a copy
# of harness/ whose path dependency points there, into its own target directory.
REPO = os.path.realpath(os.environ.get("VERIF_REPO", "/repo"))
if REPO == "/repo":
    TARGET = os.path.join(CACHE, "target")
    HARNESS_DIR = os.path.join(ROOT, "harness")
else:
    _tag = "alt-" + re.sub(r"[^A-Za-z0-9]+", "_", REPO).strip("_")
    TARGET = os.path.join(CACHE, _tag, "target")
    HARNESS_DIR = os.path.join(CACHE, _tag, "harness")
HARNESS_BIN = os.path.join(TARGET, "debug", "tarpc-verif-harness")
GUARD = "tarpc_verif"
JOBS = int(os.environ.get("VERIF_JOBS", "16"))

FORBIDDEN = re.compile(
    r"\b(Admitted|admit|Axiom|Axioms|Parameter|Parameters|Conjecture|Hypothesis|Variable|"
    r"Abort All|bypass_check|Admit Obligations)\b|Unset Guard|Unset Positivity|Unset Universe|type-in-type|impredicative-set")

# axioms of Coq's own standard library that a theorem may depend on (none is expected)
ALLOWED_AXIOMS = set()


class Infra(Exception):
    """The check's own machinery failed: never a verdict about the property."""


def log(msg):
    print(msg, flush=True)


def run(cmd, timeout, cwd=None, env=None, check=False):
    t0 = time.time()
    try:
        p = subprocess.run(cmd, cwd=cwd, env=env, timeout=timeout, stdout=subprocess.PIPE,
                           stderr=subprocess.STDOUT, text=True)
    except subprocess.TimeoutExpired as e:
        raise Infra(f"timeout after {timeout}s: {' '.join(cmd)}\n{(e.stdout or '')[-2000:]}")
    if check and p.returncode != 0:
        raise Infra(f"command failed ({p.returncode}): {' '.join(cmd)}\n{p.stdout[-4000:]}")
    return p.returncode, p.stdout, time.time() - t0


# ------------------------------------------------------------------------------------ Coq

def coq_env():
    env = dict(os.environ)
    env["LC_ALL"] = "C"
    return env


def ensure_makefile():
    mk = os.path.join(COQ, "Makefile")
    proj = os.path.join(COQ, "_CoqProject")
    if not os.path.exists(mk) or os.path.getmtime(mk) < os.path.getmtime(proj):
        run(["coq_makefile", "-f", "_CoqProject", "-o", "Makefile"], 120, cwd=COQ, check=True)


class proof_lock:
    """Serialises everything that writes into coq/ (translator output, make) across concurrently
    running checks: two `make`s in one directory race on the .vo files."""
    def __enter__(self):
        import fcntl
        os.makedirs(os.path.join(ROOT, ".cache"), exist_ok=True)
        self.f = open(os.path.join(ROOT, ".cache", "proof.lock"), "w")
        fcntl.flock(self.f, fcntl.LOCK_EX)
        return self

    def __exit__(self, *a):
        import fcntl
        fcntl.flock(self.f, fcntl.LOCK_UN)
        self.f.close()
        return False


def make_targets(targets, timeout=1500):
    """Full .vo build of exactly the files asked for. Returns (ok, output)."""
    ensure_makefile()
    rc, out, _ = run(["make", f"-j{JOBS}"] + targets, timeout, cwd=COQ, env=coq_env())
    return rc == 0, out


def scan_forbidden():
    """Forbidden declarations anywhere in the development. Section variables are permitted
    only inside `Section`s; files listed in SECTION_OK may use Variable/Hypothesis."""
    bad = []
    # the development proper = the files of _CoqProject (only those can be compiled by make and
    # hence be depended upon); scratch files of proofs in progress are not part of it
    listed = set()
    for line in open(os.path.join(COQ, "_CoqProject")):
        line = line.strip()
        if line.endswith(".v"):
            listed.add(os.path.normpath(os.path.join(COQ, line)))
    for d, _, files in os.walk(COQ):
        for f in files:
            if not f.endswith(".v"):
                continue
            path = os.path.join(d, f)
            if os.path.normpath(path) not in listed:
                continue
            txt = strip_comments(open(path).read())
            in_section = 0
            for ln, line in enumerate(txt.split("\n"), 1):
                if re.match(r"\s*Section\b", line):
                    in_section += 1
                if re.match(r"\s*End\b", line) and in_section:
                    in_section -= 1
                for m in FORBIDDEN.finditer(line):
                    w = m.group(0)
                    if w in ("Variable", "Hypothesis", "Parameter", "Parameters") and in_section \
                            and w in ("Variable", "Hypothesis"):
                        continue
                    bad.append(f"{os.path.relpath(path, ROOT)}:{ln}: {w}")
    return bad


def strip_comments(txt):
    out, depth, i = [], 0, 0
    while i < len(txt):
        if txt.startswith("(*", i):
            depth += 1
            i += 2
        elif txt.startswith("*)", i) and depth:
            depth -= 1
            i += 2
        else:
            if depth == 0:
                out.append(txt[i])
            elif txt[i] == "\n":
                out.append("\n")
            i += 1
    return "".join(out)


def property_theorems(pid):
    """Compile Properties/<pid>.v once more (into out/) to capture Print Assumptions.
    Returns (theorem names, {name: assumption text}, ok, output)."""
    src = os.path.join(COQ, "Properties", f"{pid}.v")
    txt = strip_comments(open(src).read())
    names = re.findall(r"^\s*Theorem\s+([A-Za-z0-9_']+)", txt, re.M)
    printed = re.findall(r"^\s*Print Assumptions\s+([A-Za-z0-9_']+)\s*\.", txt, re.M)
    odir = os.path.join(OUT, pid)
    os.makedirs(odir, exist_ok=True)
    rc, out, _ = run(["coqc", "-noglob", "-Q", COQ, "TarpcV", "-w", "-notation-overridden",
                      src, "-o", os.path.join(odir, f"{pid}.vo")], 900, env=coq_env())
    blocks = split_assumptions(out)
    res = {}
    for i, n in enumerate(printed):
        res[n] = blocks[i] if i < len(blocks) else "<missing>"
    return names, printed, res, rc == 0, out


def split_assumptions(out):
    blocks, cur = [], None
    for line in out.split("\n"):
        if line.startswith("Closed under the global context"):
            if cur is not None:
                blocks.append(cur)
                cur = None
            blocks.append("closed")
        elif line.startswith("Axioms:"):
            if cur is not None:
                blocks.append(cur)
            cur = "axioms:"
        elif cur is not None:
            if line.strip() == "":
                continue
            cur += " " + line.strip()
    if cur is not None:
        blocks.append(cur)
    return blocks


def assumptions_ok(text):
    if text == "closed":
        return True
    if text.startswith("axioms:"):
        names = re.findall(r"([A-Za-z0-9_.']+)\s*:", text[len("axioms:"):])
        return all(n in ALLOWED_AXIOMS for n in names)
    return False


def coqchk(pid, timeout=1500):
    rc, out, dt = run(["coqchk", "-silent", "-o", "-Q", COQ, "TarpcV", f"TarpcV.Properties.{pid}"],
                      timeout, cwd=COQ, env=coq_env())
    return rc == 0, out, dt


# ------------------------------------------------------------------------------------ Rust

def _sync_alt_harness():
    src = os.path.join(ROOT, "harness")
    os.makedirs(HARNESS_DIR, exist_ok=True)
    for d, _, files in os.walk(src):
        if "/target" in d:
            continue
        rel = os.path.relpath(d, src)
        os.makedirs(os.path.join(HARNESS_DIR, rel), exist_ok=True)
        for f in files:
            data = open(os.path.join(d, f), "rb").read()
            if f == "Cargo.toml":
                data = data.replace(b'path = "/repo/tarpc"', f'path = "{REPO}/tarpc"'.encode())
            dst = os.path.join(HARNESS_DIR, rel, f)
            if not os.path.exists(dst) or open(dst, "rb").read() != data:
                open(dst, "wb").write(data)


def cargo_build():
    if REPO != "/repo":
        _sync_alt_harness()
    env = dict(os.environ)
    env["CARGO_TARGET_DIR"] = TARGET
    env["RUSTFLAGS"] = f"--cfg {GUARD}"
    env["CARGO_NET_OFFLINE"] = "true"
    rc, out, dt = run(["cargo", "build", "--offline", "--quiet"], 1500, cwd=HARNESS_DIR, env=env)
    if rc != 0:
        raise Infra("harness does not build against /repo's working tree:\n" + out[-6000:])
    return dt


def harness(args, timeout=900):
    rc, out, dt = run([HARNESS_BIN] + args, timeout)
    if rc != 0:
        raise Infra(f"harness {' '.join(args)} failed ({rc}):\n{out[-4000:]}")
    return out


# ------------------------------------------------------------------------------------ cases

def read_cases(path):
    cases = []
    with open(path) as f:
        for line in f:
            line = line.rstrip("\n")
            if not line:
                continue
            cfg, ops, obs, tags, nops = line.split("\t")
            cases.append({"cfg": cfg, "ops": ops, "obs": obs,
                          "tags": [t for t in tags.split(",") if t], "nops": int(nops)})
    return cases


def eval_cases(pid, spec, cases, shard=150, timeout=900):
    """Run `check` of Checks/<pid>check.v over every case inside Coq (vm_compute).
    Returns list of verdict codes (0 ok, bit0 model!=impl, bit1 monitor rejects impl trace)."""
    odir = os.path.join(OUT, pid, f"shards-{os.getpid()}")
    shutil.rmtree(odir, ignore_errors=True)
    os.makedirs(odir, exist_ok=True)
    shards = [cases[i:i + shard] for i in range(0, len(cases), shard)]

    def one(ix):
        name = f"cases_{ix}"
        path = os.path.join(odir, name + ".v")
        with open(path, "w") as f:
            f.write(spec["cases_header"])
            f.write("Definition cases : list case := [\n")
            f.write(";\n".join(spec["case_term"](c) for c in shards[ix]))
            f.write("\n].\nEval vm_compute in map check cases.\n")
        rc, out, _ = run(["coqc", "-noglob", "-Q", COQ, "TarpcV", "-w", "-notation-overridden", path],
                         timeout, cwd=odir, env=coq_env())
        if rc != 0:
            raise Infra(f"coqc failed on {path}:\n{out[-3000:]}")
        m = re.search(r"=\s*(\[.*?\])(%N)?\s*:\s*list N", out, re.S)
        if not m:
            raise Infra(f"cannot parse verdicts from coqc output of {path}:\n{out[-2000:]}")
        codes = [int(x) for x in re.findall(r"\d+", m.group(1))]
        if len(codes) != len(shards[ix]):
            raise Infra(f"{path}: {len(codes)} verdicts for {len(shards[ix])} cases")
        return codes

    codes = []
    with cf.ThreadPoolExecutor(max_workers=JOBS) as ex:
        for r in ex.map(one, range(len(shards))):
            codes.extend(r)
    shutil.rmtree(odir, ignore_errors=True)
    return codes


def model_output(pid, spec, case):
    """The model's own observation list for one case, as Coq prints it (for replay files)."""
    odir = os.path.join(OUT, pid)
    path = os.path.join(odir, "model_one.v")
    with open(path, "w") as f:
        f.write(spec["cases_header"])
        f.write("Definition c : case := " + spec["case_term"](case) + ".\n")
        f.write("Eval vm_compute in model c.\n")
    rc, out, _ = run(["coqc", "-noglob", "-Q", COQ, "TarpcV", "-w", "-notation-overridden", path],
                     300, cwd=odir, env=coq_env())
    return " ".join(out.split())


# ------------------------------------------------------------------------------------ verdicts

def load_known(pid):
    known, fixed = [], []
    path = os.path.join(ROOT, "KNOWN_FINDINGS.txt")
    if os.path.exists(path):
        for line in open(path):
            line = line.strip()
            m = re.match(r"known:\s+property=(\S+)\s+sig=(\S+)\s+(.*)", line)
            if m and m.group(1) == pid:
                known.append((m.group(2), m.group(3)))
            m = re.match(r"fixed:\s+property=(\S+)\s+(.*)", line)
            if m and m.group(1) == pid:
                fixed.append(m.group(2))
    return known, fixed


def write_evidence(pid, tier, seed, coverage, assumptions, wall, violations):
    os.makedirs(os.path.join(ROOT, "evidence"), exist_ok=True)
    ev = {"property_id": pid, "tier": tier, "seed": seed, "level": "proof", "coverage": coverage,
          "assumptions": assumptions, "wall_s": round(wall, 2), "violations": violations}
    # evidence/ describes runs against /repo only; a run against a scratch checkout (VERIF_REPO)
    # leaves its record under out/
    target = os.path.join(ROOT, "evidence", f"{pid}.json") if REPO == "/repo" \
        else os.path.join(OUT, pid, "evidence-alt.json")
    os.makedirs(os.path.dirname(target), exist_ok=True)
    with open(target, "w") as f:
        json.dump(ev, f, indent=1)
        f.write("\n")


def write_replay(pid, name, obj):
    odir = os.path.join(OUT, pid)
    os.makedirs(odir, exist_ok=True)
    path = os.path.join(odir, name)
    with open(path, "w") as f:
        json.dump(obj, f, indent=1)
        f.write("\n")
    return os.path.relpath(path, ROOT)


def ddmin(tokens, failing, budget=80):
    """Delta debugging on a token list; `failing(tokens)` is True when the property still fails."""
    n = 2
    calls = 0
    while len(tokens) >= 2 and calls < budget:
        chunk = max(1, len(tokens) // n)
        reduced = False
        for i in range(0, len(tokens), chunk):
            cand = tokens[:i] + tokens[i + chunk:]
            calls += 1
            if cand and failing(cand):
                tokens = cand
                n = max(n - 1, 2)
                reduced = True
                break
            if calls >= budget:
                break
        if not reduced:
            if chunk == 1:
                break
            n = min(len(tokens), n * 2)
    return tokens
