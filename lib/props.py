"""Per-property specifications used by ./check."""

COMMON_TB = [
    "Coq 8.16.1 kernel (coqc; coqchk in the thorough tier); vm_compute for evaluating the model "
    "and monitors on correspondence cases; no native_compute",
    "no axioms: Print Assumptions of every property theorem is 'Closed under the global context'",
    "correspondence harness (Rust, /verif/harness) and driver (Python, /verif/check): scripted "
    "operations run on the real code, observations printed as Coq terms and compared inside Coq",
]

HDR = ("From Coq Require Import List NArith ZArith Bool.\nImport ListNotations.\n"
       "From TarpcV Require Import Base {mods}.\n")


def c13_known_none(_):
    return False


SPECS = {}
NOT_CLAIMED = {}

SPECS["C13"] = {
    "pid": "C13",
    "harness": "c13",
    "coq_targets": ["Properties/C13.vo", "Checks/C13check.vo"],
    "cases_header": HDR.format(mods="PerKey Checks.C13check"),
    "case_term": lambda c: f"({c['cfg']}, {c['ops']}, {c['obs']})",
    "quick": {"count": 600},
    "thorough": {"count": 20000},
    "sweeps": [["--len", "6"]],
    "nontrivial": lambda c: "shed" in c["tags"] or "close+same-key-arrival-pending-at-one-poll" in c["tags"],
    "rule": "scripts over ops {Arrive k, Close cid, Poll, EndListener}, n in 1..3, <=3 keys, 4..40 ops, "
            "generated state-aware from one splitmix64 stream (a third force the pattern 'close; "
            "same-key arrival; poll'); non-trivial = the real code shed a channel or had a close and a "
            "same-key arrival pending at one poll; distinct = distinct script text; thorough adds every "
            "script of length 6 over {A0,A1,P,C0,C1,C2} for n=1,2",
    "trusted_base": COMMON_TB + [
        "modelled, not verified: Arc/Weak counts and the unbounded mpsc as sequential data; "
        "thread interleavings inside increment_channels_for_key (strong_count then upgrade) are outside the model",
    ],
    "level_text": "Theorems C13_monitor / C13_alive_le_n / C13_accept_below_n: for every n >= 1 and every sequence "
                  "of arrivals, closes, polls and listener end, the model of MaxChannelsPerKey never has more than n live "
                  "channels per key, sheds only with exactly n alive, and admits below n (induction over op lists, invariant "
                  "'every live channel holds the tracker its key maps to'). The model is tied to the code by replaying "
                  "hundreds of generated scripts (thousands + an exhaustive length-6 sweep in thorough) on the real "
                  "MaxChannelsPerKey and comparing every observation inside Coq; the monitor proved correct for the model "
                  "is also evaluated on the implementation's traces.",
    "level_note": "Trusted: Coq kernel, vm_compute, the Rust harness and Python driver. Modelled not verified: Arc/Weak "
                  "reference counts and tokio's unbounded mpsc as sequential data. Not covered: OS-thread races between "
                  "strong_count() and upgrade(). Correspondence is sampled, not proved.",
    "design_ref": "DESIGN.md section 6 (C13)",
    "assumptions": ["one op (arrival, close, poll) is atomic; channels are closed by dropping them on the "
                    "thread that polls the listener"],
}
