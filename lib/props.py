"""Per-property specifications used by ./check."""

COMMON_TB = [
    "Coq 8.16.1 kernel (coqc; coqchk in the thorough tier); vm_compute for evaluating the model "
    "and monitors on correspondence cases; no native_compute",
    "no axioms: Print Assumptions of every property theorem is 'Closed under the global context'",
    "correspondence harness (Rust, /verif/harness) and driver (Python, /verif/check): scripted "
    "operations run on the real code, observations printed as Coq terms and compared inside Coq",
]


AUDIT_TB = [
    "fidelity audit of the hand-written models against the sources: AUDIT.md (function-by-function tables, every `?` "
    "early return, third-party assumptions and where they are encoded, unmodelled code)",
    "assumed: tokio's cooperative budget never interrupts a poll (inside a tokio task a poll may return Pending early, "
    "after self-waking, once 128 budget units are used; the harness polls outside a task, so statements of the form "
    "'a poll that returned Pending at T processed everything due at T' hold up to such self-woken re-polls)",
    "assumed: request/response buffer sizes >= 1 (tokio's mpsc::channel(0) panics: a configuration precondition); one "
    "integer-millisecond clock stands for std's and tokio's clocks (the harness keeps them equal)",
    "third-party code was transcribed from the crate versions in /repo/Cargo.lock (tokio 1.53, tokio-util 0.7.19, "
    "futures-util 0.3.34, tokio-serde 0.9, serde_json 1.x, bincode 1.3); a different version may behave differently "
    "(e.g. TakeWhile not latching the end of its inner stream) - AUDIT.md round 2, F17",
]
HDR = ("From Coq Require Import List NArith ZArith Bool.\nImport ListNotations.\n"
       "From TarpcV Require Import Base {mods}.\n")


def c13_known_none(_):
    return False


SPECS = {}
NOT_CLAIMED = {}

SPECS["C13"] = {
    "pid": "C13",
    "harness": "c13",
    "coq_targets": ["Properties/C13.vo", "Checks/C13check.vo", "Checks/C13rcheck.vo"],
    "cases_header": HDR.format(mods="PerKey Checks.C13check"),
    "parts": [{}, {
        "name": "race",
        "harness": "c13r",
        "cases_header": HDR.format(mods="PerKey PerKeyRace Checks.C13rcheck"),
        "quick": {"count": 600},
        "thorough": {"count": 20000},
        "sweeps": [[]],
        "nontrivial": lambda c: any(t in c["tags"] for t in (
            "close-inside-poll", "ops-inside-tracker-drop", "close-between-read-and-upgrade")),
        "rule": "part race: the real MaxChannelsPerKey driven through the yield points of hook H5 (before upgrade(), "
                "before dropped_keys.poll_recv, before the entry check, inside Tracker::drop before it sends): at "
                "each of them the callback does what another thread could do there (drop tracked channels - release "
                "and notification split for top-level drops -, let channels arrive, end the listener; a whole "
                "poll_next, with its own yield points live, inside Tracker::drop); the run is logged as the flat list "
                "of PerKeyRace.rop it amounts to with the decision-view observations and the program counter after "
                "every listener action, and compared inside Coq with PerKeyRace.rrun; n in 1..3, <=3 keys (hash collisions as in the main part), 4..30 "
                "tokens; non-trivial = something happened between two atomic actions of a poll or inside "
                "Tracker::drop; thorough adds a bounded-exhaustive family (every choice of one of six op lists at each "
                "of the three yield points of one poll, 3 prefixes, 4 follow-ups, n = 1, 2)",
    }],
    "case_term": lambda c: f"({c['cfg']}, {c['ops']}, {c['obs']})",
    "quick": {"count": 600},
    "thorough": {"count": 20000},
    "sweeps": [["--len", "6"]],
    "nontrivial": lambda c: "shed" in c["tags"] or "close+same-key-arrival-pending-at-one-poll" in c["tags"],
    "rule": "scripts over ops {Arrive k, Close cid, Poll, EndListener}, n in 1..3, <=3 keys (the key type handed to the "
            "real limiter hashes only the lowest bit of the key: keys 0 and 2 are different by Eq and collide in every hash "
            "map), 4..40 ops, "
            "generated state-aware from one splitmix64 stream (a third force the pattern 'close; "
            "same-key arrival; poll'); non-trivial = the real code shed a channel or had a close and a "
            "same-key arrival pending at one poll; distinct = distinct script text; thorough adds every "
            "script of length 6 over {A0,A1,P,C0,C1,C2} for n=1,2",
    "trusted_base": COMMON_TB + [
        "modelled, not verified: Arc/Weak counts and the unbounded mpsc as sequential data; "
        "thread interleavings inside increment_channels_for_key (strong_count then upgrade) are outside the model",
    ],
    "level_text": "Theorems C13_monitor / C13_alive_le_n / C13_accept_below_n: for every n >= 1 and every sequence "
                  "of arrivals, closes, polls and listener end, the model of MaxChannelsPerKey never has more than n live "
                  "channels per key, sheds only with exactly n alive, and admits below n (induction over op lists, invariant "
                  "'every live channel holds the tracker its key maps to'). The model is tied to the code by replaying "
                  "hundreds of generated scripts (thousands + an exhaustive length-6 sweep in thorough) on the real "
                  "MaxChannelsPerKey and comparing every observation inside Coq; the monitor proved correct for the model "
                  "is also evaluated on the implementation's traces. THREAD RACES (part race, third session): the model PerKeyRace.v "
                  "splits poll_next into its atomic actions (listen / upgrade / receive / check) and lets other threads "
                  "release channels, deliver their delayed drop notifications, let channels arrive or end the listener "
                  "between any two of them; C13_race_alive_le_n, C13_race_monitor (the decision view of EVERY interleaving is "
                  "accepted by the C13 monitor), C13_race_shed_only_if_was_full, C13_race_accept_*, C13_race_pc_flow, C13_race_poll_bound (without interference "
                  "poll_next returns within 4 * (pending arrivals + queued notifications) + 5 atomic actions). It is "
                  "tied to the code through the yield points of hook H5, which sit exactly at those boundaries: the real "
                  "limiter's run is logged as a flat list of race ops and compared with the model op by op (observations "
                  "and program counter).",
    "level_note": "Trusted: Coq kernel, vm_compute, the Rust harness and Python driver. Modelled not verified: Arc/Weak "
                  "reference counts and tokio's unbounded mpsc as sequential data. OS-thread races between strong_count(), "
                  "upgrade(), the release of a channel and its delayed drop notification are covered by the race model "
                  "PerKeyRace.v (theorems C13_race_*), tied to the code by part race: the yield points of hook H5 sit exactly between its atomic "
                  "actions and the callback plays the other threads deterministically (real OS-thread scheduling and the "
                  "memory ordering of the count reads stay assumptions). Correspondence is sampled, not proved.",
    "design_ref": "DESIGN.md section 6 (C13)",
    "assumptions": ["one op (arrival, close, poll) is atomic; channels are closed by dropping them on the "
                    "thread that polls the listener (sequential machine, tied to the code)",
                    "race model (PerKeyRace.v, proved; tied to the code at the yield points of hook H5 by part race): strong_count() and upgrade() are each atomic, "
                    "upgrade() succeeds iff the count is > 0 at that instant, strong_count() reads are sequentially "
                    "consistent (a stale read can only be higher: a conservative shed), Tracker::drop sends its key some "
                    "time after the count reached 0 (RRelease / RNotify), dropped_keys is linearizable, only the listener "
                    "task touches key_counts"],
}

SPECS["C19"] = {
    "pid": "C19",
    "harness": "c19",
    "coq_targets": ["Properties/C19.vo", "Checks/C19check.vo"],
    "cases_header": HDR.format(mods="Hooks Checks.C19check") + "Local Open Scope N_scope.\n",
    "case_term": lambda c: f"({c['cfg']}, {c['obs']})",
    "quick": {"count": 3000},
    "thorough": {"count": 30000},
    "sweeps": [[]],
    "nontrivial": lambda c: any(t in c["tags"] for t in (
        "failure-skipped-later-hooks", "failure-after-earlier-hooks", "after-rewrote-result",
        "after-saw-error", "depth3", "list-continued-with-elapsed-deadline",
        "elapsed-deadline+list+later-hook-failed")),
    "rule": "one script = one composition of the real wrappers (outermost first over {B .before(obj), A .after(closure), "
            "C .before_and_after(obj), L before().then(..).then_fn(..).serving(s), M s.before(list)}) + scripted hooks "
            "(span id keep/set/wrapping add; deadline keep/set to T0+k ms, k<0 past, k=0 now, k>0 future; fail never/always/"
            "span>=t/req=q/deadline-elapsed; result keep/set/map/recover/fail/span/deadline) + one serve() call made under "
            "the virtual clock (Instant::now() = T0 throughout, so deadlines are observed exactly) with a live or an elapsed "
            "deadline (30% arrive expired: -1 h, -60 s, -1 ms or exactly now; in another 25% an early before-hook moves the "
            "deadline to now/the past; in both modes chains have >=2 hooks and 70% have a hook after the first one failing; "
            "tags list-continued-with-elapsed-deadline and elapsed-deadline+list+later-hook-failed count them); half of the scripts are nestings of depth 0..3 (lists 0..2), half chains of length 0..5 under "
            "an optional outer wrapper, 60% with a designated failing before-hook at a uniformly drawn position; every "
            "nesting is its own statically nested Rust type (type-level recursion, 156 shapes + chain family); "
            "non-trivial = a before-hook failed with hooks before or after it, or an after-hook saw an error or rewrote "
            "the result, or depth 3, or a list went on after a hook left an elapsed deadline; distinct = distinct script text; thorough adds the bounded-exhaustive family: all "
            "156 nestings of depth<=3 with no failure and with each before-hook failing in turn, and chains 0..5 (L and M "
            "forms, under no/B/A/C outer wrapper) with every failing position, each also called with an elapsed deadline (-60 s "
            "and exactly now) and with each hook in turn moving a live deadline to now",
    "trusted_base": COMMON_TB + [
        "modelled, not verified: the part of context::Context a hook changes is the span id (u64) and the deadline "
        "(exact signed ms relative to the fixed instant of the call; harness virtual clock); "
        "hooks are scripted effects, hook-internal state (&mut self) carried from the before part to the after part "
        "of a before-and-after hook is not modelled; one serve() call per composition (serve consumes self)",
    ],
    "level_text": "Theorems C19_monitor, C19_before_order, C19_nest_eq_chain, C19_then_appends/_then_builds/_serving, "
                  "C19_after_once, C19_after_sees_inner_error, C19_before_after, C19_handler_at_most_once: for every tree "
                  "of Before/BeforeList/After/BeforeAfter wrappers (any nesting and depth, by structural induction), every "
                  "chain length and failing position, every initial context, request and scripted hook behaviour, the model "
                  "of request_hook/*.rs runs before-hooks in chain order on the context left by their predecessors, stops at "
                  "the first failure without invoking the handler and returns its error (C19_handler_sees_chain_ctx, "
                  "C19_chain_keeps_deadline, C19_deadline_irrelevant: the deadline travels with the context to every hook and "
                  "the handler and its value decides nothing in the wrappers), runs each after-hook exactly once "
                  "after what it wraps (including an inner before-hook's error) and returns what it left, and skips the after "
                  "part of a combined hook exactly when its before part fails, otherwise showing it the context the before "
                  "part produced. The model is tied to the code by running generated compositions of the real wrapper types "
                  "(every nesting to depth 3, chains 0..5) with recording hooks and comparing events and result inside Coq; "
                  "the monitor proved correct for the model is also evaluated on the implementation's traces.",
    "level_note": "Trusted: Coq kernel, vm_compute, the Rust harness and Python driver. Modelled not verified: the context "
                  "as span id + deadline; hooks as scripted effects without internal state; futures that are immediately ready. "
                  "The statement does not say which context a plain after-hook sees; the model (and the code) give it the "
                  "wrapper's own copy, unaffected by inner before-hooks, and the monitor leaves it unconstrained. "
                  "Correspondence is sampled (bounded-exhaustive to depth 3 in thorough), not proved.",
    "design_ref": "DESIGN.md section 6 (C19)",
    "assumptions": ["hook futures and the handler future complete without suspending in between (each serve body is "
                    "sequential code, so suspension points do not reorder effects)"],
}

SPECS["C20"] = {
    "pid": "C20",
    "harness": "c20",
    "coq_targets": ["Properties/C20.vo", "Checks/C20check.vo"],
    "cases_header": HDR.format(mods="Stubs Checks.C20check") + "Local Open Scope N_scope.\n",
    "case_term": lambda c: f"({c['cfg']}, {c['ops']}, {c['obs']})",
    "quick": {"count": 1500},
    "thorough": {"count": 20000},
    "sweeps": [[]],
    "nontrivial": lambda c: any(t in c["tags"] for t in (
        "rr-concurrent-burst", "rr-cycled-twice", "ch-repeated-request", "retry-retried",
        "retry-cap-reached", "retry-retried-nondefault-context")),
    "rule": "one script = one stub configuration + a list of operations on the real stub over recording mock backends; "
            "every call is made with a scripted caller context (3 in 4 non-default: trace ids 0/1/7/42/2^64+5/2^128-1, any "
            "span id, both sampling decisions, deadlines +1 h .. +1 ms, exactly now, -1 ms, -60 s, measured exactly under "
            "the virtual clock) and every mock records the context it is handed (tags balance-nondefault-context, "
            "retry-retried-nondefault-context, retry-retried-expired-deadline): "
            "40% RoundRobin (b in 1..8; single calls and bursts from 1-8 OS threads, each thread with its own clone of "
            "the stub, released by a barrier; for a burst only the per-backend counts are compared), 30% "
            "ConsistentHash::with_hasher (b in 1..16; hashers constant / identity / affine / FNV-1a / fold / std "
            "RandomState and BuildHasherDefault<DefaultHasher>, the two std ones tabulated by the harness from a clone; "
            "requests drawn from a small pool so that they repeat, plus values near 2^64), 30% Retry (policies never / "
            "always / on-error / on-error-below-m / below-m / by-attempt table / Ok-below-v over inner result scripts of "
            "length 0..8; a cap on inner calls cuts non-terminating policies); non-trivial = a concurrent burst, or the "
            "cursor went round all backends twice, or a request was repeated, or at least one retry happened or the cap "
            "was hit; distinct = distinct script text; thorough adds: b=1..8 x k<=3b sequential calls and bursts from 1..8 "
            "threads, every hasher x b=1..5 x 34 calls, every inner result script of length <=4 over 4 results x 8 policies",
    "trusted_base": COMMON_TB + [
        "modelled, not verified: AtomicUsize::fetch_add as one atomic step on a 64-bit counter (usize = u64); the "
        "std Hash impl of u64 (write_u64 -> write of the 8 native-endian bytes); RangeFrom<u32>::next (successor "
        "computed before the value is handed out; panics at u32::MAX with overflow checks, wraps otherwise)",
    ],
    "level_text": "Theorems C20_monitor (now including 'every attempt / the chosen backend sees the caller's context'), "
                  "C20_round_robin_balanced, C20_rr_interleaving, C20_consistent_hash_valid/"
                  "_deterministic, C20_retry (+ C20_round_robin_wrap_refuted, C20_retry_wrap_refuted showing the bounds are "
                  "necessary): in the model of load_balance.rs and retry.rs, for every backend count b >= 1 and every n <= "
                  "2^64 next() calls in any interleaving of atomic fetch_adds, any two backends' counts differ by at most "
                  "one; for every hasher function the consistent-hash pick is h(req) mod b < b and a function of the "
                  "request; for every retry policy and inner-stub behaviour whose first declined attempt is k < 2^32 (2^32-1 "
                  "with overflow checks), Retry::call makes exactly k inner calls with the same request, shows the policy "
                  "(result j, attempt j) for j = 1..k and returns the k-th result unchanged; C20_retry_same_context / "
                  "C20_balance_same_context: for every policy, every number of attempts and every backend count, every "
                  "attempt of Retry and the backend chosen by RoundRobin / ConsistentHash is handed exactly the caller's "
                  "context (trace id, span id, sampling decision, deadline) and request. The model is tied to the code "
                  "by running generated operation lists on the real RoundRobin (also from 1-8 OS threads), "
                  "ConsistentHash::with_hasher (custom and std BuildHashers) and Retry over recording mocks and comparing "
                  "every observation inside Coq; the monitor proved correct for the model is also evaluated on the "
                  "implementation's traces.",
    "level_note": "Trusted: Coq kernel, vm_compute, the Rust harness and Python driver. Modelled not verified: atomicity of "
                  "fetch_add (Relaxed ordering is enough for a single counter; finer-grained memory-model effects are outside "
                  "the model), std's u64 Hash impl and RangeFrom<u32>. The cursor cannot be preset, so the real code is only "
                  "driven from cursor 0 for a few thousand calls; the 2^64 and 2^32 wraps are theorems about the model only "
                  "(refutation lemmas), not observed. ConsistentHash::new (hidden RandomState) is not driven; with_hasher "
                  "with a RandomState clone is. Correspondence is sampled, not proved.",
    "design_ref": "DESIGN.md section 6 (C20)",
    "assumptions": ["fewer than 2^64 round-robin calls per stub and fewer than 2^32 (2^32-1 with overflow checks) "
                    "attempts per Retry::call; each fetch_add is one atomic step"],
}


# ---------------------------------------------------------------------------------------------
# WIRE and TIME layer: C15, C07, C16 (models Wire.v / Framing.v / Shipped.v / Time.v; the
# translator tools/gen re-derives coq/Generated.v from /repo at the start of every run)
def wire_translator():
    """Runs tools/gen (sources: lib.vcheck.REPO). Returns (ok, text): whether the generated side
    conditions hold when they were compiled privately (VERIF_REPO mode; in the normal mode they are
    ordinary make targets and this returns (True, ""))."""
    import os
    import re
    import subprocess
    from . import vcheck as V
    p = subprocess.run([os.path.join(V.ROOT, "tools", "gen")], stdout=subprocess.PIPE,
                       stderr=subprocess.STDOUT, text=True, timeout=1800)
    if p.returncode != 0:
        raise V.Infra("translator tools/gen failed:\n" + p.stdout[-4000:])
    m = re.search(r"GENCHECKS-ALT failed (\S+)", p.stdout)
    if m:
        return False, ("generated side conditions (coq/GenChecks) do not hold for the sources under "
                       + V.REPO + ":\n" + open(m.group(1)).read()[-2500:])
    return True, ""


def wire_runner(spec, tier, seed):
    """flow.run_property with the translator run first. With VERIF_REPO set, Generated.v and the
    GenChecks are compiled in a private directory (the shared coq/Generated.v is not touched); a
    failure there is reported to the flow as a broken proof obligation."""
    from . import flow, vcheck as V
    gen_ok, gen_out = wire_translator()
    spec2 = dict(spec)
    spec2.pop("translator", None)
    spec2.pop("runner", None)
    if V.REPO != "/repo":
        spec2["coq_targets"] = [t for t in spec["coq_targets"] if not t.startswith("GenChecks/")]
    orig = V.make_targets

    def patched(targets, timeout=1500):
        ok, out = orig(targets, timeout)
        if ok and not gen_ok:
            return False, gen_out
        return ok, out

    V.make_targets = patched
    try:
        return flow.run_property(spec2, tier, seed)
    finally:
        V.make_targets = orig


WIRE_HDR = ("From Coq Require Import String Ascii.\nFrom Coq Require Import List NArith ZArith Bool.\n"
            "Import ListNotations.\nFrom TarpcV Require Import Base Schema Wire Framing {mods}.\n"
            "Local Open Scope N_scope.\n")

WIRE_TB = [
    "translator tools/gen + the harness's recording serde::Serializer / probing serde::Deserializer (which also drives "
    "every struct's visit_seq with every prefix length: the acceptance tables cm_seq_table / resp_seq_table) "
    "(harness/src/shape.rs): they produce coq/Generated.v, against which the model's shapes, tables and "
    "constants are checked by computation (coq/GenChecks)",
    "modelled, not verified (third-party): bincode 1.3 DefaultOptions integer/container encodings, serde_json's "
    "data-model mapping (value trees), tokio_util LengthDelimitedCodec + FramedImpl read loop, tokio/futures mpsc "
    "queues, std::time arithmetic, tokio_util DelayQueue's range, humantime's RFC 3339 range",
]

SPECS["C15"] = {
    "pid": "C15",
    "harness": "c15",
    "translator": wire_translator,   # run by wire_runner (which then removes it from the spec it hands to the flow)
    "runner": wire_runner,
    "coq_targets": ["Properties/C15.vo", "Checks/C15check.vo", "GenChecks/C15.vo"],
    "gen_obligations": ["gen_client_message_shape", "gen_response_shape", "gen_client_message_shape_wf",
                        "gen_response_shape_wf", "gen_kind_types", "gen_kind_ser_table", "gen_kind_de_table",
                        "gen_default_deadline_wire", "gen_seq_tables"],
    "cases_header": WIRE_HDR.format(mods="Shipped Checks.C15check"),
    "case_term": lambda c: f"({c['cfg']}, {c['ops']}, {c['obs']})",
    "quick": {"count": 160},
    "thorough": {"count": 4000},
    "sweeps": [[]],
    "shrink_budget": 40,
    "nontrivial": lambda c: any(t in c["tags"] for t in (
        "fragmented-read", "partial-write", "read-pending", "write-pending", "cut", "hand-written",
        "unportable-kind", "full", "end-after-drop", "large-body", "sink-closed", "flush-pending")),
    "rule": "one script = one direction of one shipped transport: codec in {bincode, json} through the real "
            "tarpc::serde_transport::new(Framed::new(io, LengthDelimitedCodec::new()), codec) over a scripted in-memory "
            "byte stream (cyclic write-acceptance pattern and cyclic read-chunk pattern: byte-at-a-time, frame-straddling, "
            "coalesced, with Pending results in between; optionally the stream is cut inside its last frame; the writing end "
            "is either dropped or closed with Sink::poll_close and kept alive - the medium records poll_shutdown and the "
            "reader sees end-of-stream only after a shutdown or a drop; half of the framed scripts run over a stream that "
            "STAGES writes internally (BufWriter/TLS-like): poll_write fills a staging buffer, poll_flush answers Pending 0..3 "
            "times and then moves it to the wire, staged bytes are lost when the writer is dropped; OFrame is what reached "
            "the WIRE when the transport's flush returned Ready - the "
            "reader sees end-of-stream only after a shutdown or a drop), or "
            "transport::channel::{bounded(1..3), unbounded}; 1..7 messages (requests/cancels or ok/err responses; ids and "
            "durations biased to 0, 250, 251, 2^16, 2^32, 2^64-1; every stable io::ErrorKind; empty, multi-byte UTF-8, "
            "JSON-escape-heavy, 250..300-byte and occasionally 64 KiB+ bodies), half of the JSON scripts (both directions) "
            "with 1..3 hand-made JSON texts for the differential test of the two parsers (real serde_json output with "
            "random whitespace at token boundaries, pretty-printed output, \\uXXXX escapes incl. surrogate pairs, numbers at "
            "the u64 / i64 boundaries, unknown members with nested values before / between / duplicated around the known "
            "ones, reordered members, omitted optional members, ARRAY-form structs at every nesting level (whole message, "
            "context, trace context, Duration as [secs,nanos], Response, ServerError - each level object or array "
            "independently; complete, one element short, one element too many, object context without deadline inside an "
            "array-form Request), and texts both must reject: lone surrogates, bad escapes, "
            "raw control characters, leading zeros, truncation at a random position, trailing garbage, structural damage) "
            "and a fifth of the bincode scripts with one hand-written payload (non-canonical varints, trailing bytes); compared per message: the serde calls of the real Serialize "
            "impl (recording serializer) against the model's event list, the bytes on the stream against the model's "
            "frame, every item the reading end yields, and the end of the stream; non-trivial = reads or writes were "
            "fragmented / Pending, or the stream was cut, or a hand-written payload / non-portable kind / full bounded "
            "channel / end-after-drop / 64 KiB+ body was involved; distinct = distinct script text; thorough adds the "
            "bounded-exhaustive family: every stable io::ErrorKind x {bincode, json, bounded, unbounded}, every boundary "
            "id x 4 chunking classes x 4 transports, every cut position 1..39 of a two-frame stream, and 70 000-byte and 1 MiB bodies",
    "trusted_base": COMMON_TB + WIRE_TB + [
        "JSON text: modelled in coq/JsonText.v (printer = serde_json::to_vec's compact form, compared byte for byte with "
        "the real transport's output; parser = a total recursive-descent parser for the subset tarpc's messages live in, "
        "which the model uses to decode every Json frame from its BYTES, compared with serde_json's parser through the "
        "real transport on every script); the harness's own small JSON parser is only a third opinion, cross-checked "
        "against the Gallina parser inside Coq",
    ],
    "level_text": "Main theorem C15_monitor: for every configuration (bincode/json framed transport under every list of read "
                  "chunk sizes and every cut position, bounded/unbounded channel) and every script of "
                  "well-formed messages, raw payloads, reads and closes, the monitor accepts the model's run (what is read is what "
                  "was written, in order, then end-of-stream; a stream cut inside a frame yields exactly the whole frames, then the end). "
                  "It composes: C15_bincode_roundtrip(_response), C15_json_tree_roundtrip(_response): decode (encode m) = Some m "
                  "for every ClientMessage and Response value (all variants, every u64 id, every body, every trace context, "
                  "every Duration, every error kind up to the documented degradation), derived from two generic theorems "
                  "(C15_*_roundtrip_schema) that hold for ANY serde shape satisfying the generated side condition schema_wf; "
                  "C15_kinds_degrade; C15_optional_cancel_trace / C15_optional_deadline / C15_unknown_fields_ignored; "
                  "C15_framing_any_chunking (for all payload lists and ALL splittings of the byte stream into chunks the "
                  "incremental decoder yields exactly the frames in order, then end-of-stream), C15_framing_truncated_tail, "
                  "C15_framing_oversize, C15_framing_total; C15_fifo / C15_fifo_order for both in-memory channels at every "
                  "capacity and op list. Close and flush clauses: C15_close_signals_end (Sink::poll_close on a framed transport "
                  "reaches the byte stream and the reader sees end-of-stream right after the last message); for byte streams "
                  "that buffer internally C15_frames_on_wire, C15_flush_ready_means_on_wire, C15_flush_pending_keeps_bytes, "
                  "C15_send_flush_on_wire (a poll_flush that returned Ready(Ok) left codec and staging buffer empty and the "
                  "frame on the wire; a Pending one loses and reorders nothing), C15_flush_skipping_refuted. JSON TEXT layer "
                  "(coq/JsonText.v: compact printer, total parser): C15_json_text_roundtrip(_ws, _message, _response, "
                  "_message_ws, _response_ws) - parse (print j) = Some j and decode_text (encode_text m) = Some m with any "
                  "whitespace between tokens -, C15_json_text_cancel_no_trace, C15_json_parse_rejects. The ARRAY form serde_json "
                  "accepts for every struct (audit F12): C15_json_array_form_schema (any well-formed shape), "
                  "C15_json_array_form_decodes(_response), C15_json_array_form_text(_response), C15_json_array_trailing_defaults, "
                  "C15_json_array_too_short, C15_json_array_too_long, C15_json_array_form_examples. "
                  "The shapes and tables the theorems are about are re-derived from /repo on every run "
                  "(recording serializer, probing deserializer, parsed tables) and checked equal to the model's by "
                  "computation; the model's events, bytes and decoded items are compared with the real codecs inside Coq on "
                  "every generated script, and the monitor is evaluated on the implementation's traces.",
    "level_note": "Trusted: Coq kernel, vm_compute, translator, Rust harness, Python driver. Modelled not verified: the "
                  "third-party encodings listed in the trusted base, including serde_json's text grammar (theorems "
                  "C15_json_text_roundtrip*: parse (print j) = Some j with any whitespace between tokens, composed with the "
                  "tree-level round trips into decode_text (encode_text m) = Some m). Outside the modelled JSON subset (the "
                  "Gallina parser rejects them, the generator does not produce them): fractions / exponents / '-0' (serde_json "
                  "reads them as f64, which no tarpc field admits), validation of UTF-8 in raw string bytes, serde_json's "
                  "recursion limit of 128 and its lenient scanner for ignored values (a lone surrogate inside an unknown "
                  "member is not rejected by serde_json). UTF-8 validity of bodies is not modelled; TCP/UDS sockets are "
                  "represented by an arbitrary scripted byte stream. Boundary (refutation lemma C15_truncated_header_refuted, the witness script is the "
                  "known_witness of check C16, entry eof-after-length-header of KNOWN_FINDINGS.txt): a stream cut exactly after a 4-byte length header reads as a clean end-of-stream, not an error "
                  "(tokio-util decode_eof); C15 only demands that no frame is made up and the stream ends, the error clause is "
                  "checked by C16 (known finding there). "
                  "Correspondence is sampled, not proved.",
    "design_ref": "DESIGN.md section 6 (C15)",
    "assumptions": ["bodies are valid UTF-8 strings shorter than 2^64 bytes; frames fit LengthDelimitedCodec's default "
                    "8 MiB limit (larger ones are refused by the encoder, which the model reproduces)",
                    "virtual clock frozen during a script, so the remaining Duration written equals the one chosen",
                    "the byte stream never answers a write with Ok(0) (tokio-util turns that into a WriteZero error; in the "
                    "model and the harness a write of 0 bytes is Pending) - AUDIT.md round 2, F13"],
}

SPECS["C17"] = {
    "pid": "C17",
    "harness": "c17",
    "coq_targets": ["Properties/C17.vo", "Checks/C17check.vo"],
    "cases_header": ("From Coq Require Import String.\nFrom Coq Require Import List NArith ZArith Bool.\n"
                     "Import ListNotations.\nFrom TarpcV Require Import Base Macro Checks.C17check.\n"
                     "Local Open Scope N_scope.\n"),
    "case_term": lambda c: f"({c['cfg']}, {c['ops']}, {c['obs']})",
    "quick": {"count": 260},
    "thorough": {"count": 2000},
    "sweeps": [[]],
    "run_timeout": 2400,
    "shrink_budget": 10,
    "max_shrinks": 2,
    "nontrivial": lambda c: ("compiled" in c["tags"] and ("same-typed-siblings" in c["tags"] or "same-typed-args" in c["tags"]))
                            or "rejected-by-macro" in c["tags"] or "rejected-by-rustc" in c["tags"],
    "rule": "one script = one service definition (service ident, visibility, derive options, 0..6 methods each with "
            "0..5 arguments, return type, #[cfg] and other attributes), generated from one splitmix64 stream: three in "
            "five definitions give all methods one signature, names come from pools with leading/trailing/double "
            "underscores, mixed case, raw identifiers, names of generated locals (req, request, resp, msg, context, ...); "
            "one in seven is a collision or a look-alike of one (same camel-case variant, repeated/ctx/self argument, "
            "new/serve/r#new/r#serve, Self, __, derive conflicts, no active method). Each definition is (A) checked by "
            "stable rustc, (B) expanded by nightly -Zunpretty=expanded and read with syn into the model's item structure, "
            "(C) compiled on stable into a runner where every enabled method is called once with pairwise-distinct "
            "arguments against a recording implementor, plus one wrong-variant probe. non-trivial = compiled with two "
            "same-signature methods or two same-typed arguments (a mis-pairing or reordering would type-check), or a "
            "definition that was rejected; distinct = distinct script text; thorough adds all pairs from 12 method names "
            "and from 9 argument names. Argument names are also drawn from the identifiers the expansion itself binds "
            "or mentions (ctx, context, req, request, resp, response, msg, service, serve, stub, config, transport, "
            "new_client, client, dispatch, args, new, S, T, Stub), a third of those and a twelfth of all arguments at "
            "the type tarpc::context::Context, so that a capture of a generated binding would type-check; "
            "corpus/C17/collisions.txt and one in six special definitions carry `ctx: Context` (must be rejected) or "
            "its look-alikes (must be accepted and served correctly); Context-typed arguments are scripted as the "
            "context (n, n), so the recording implementor shows which context it was handed; thorough adds every "
            "expansion identifier x {a, ctx, context, request} as Context-typed argument pairs",
    "trusted_base": COMMON_TB + [
        "rustc's semantics of the generated items is the small one written in coq/Macro.v (names resolve by text "
        "ignoring r#, arguments by position, first matching arm, inner bindings shadow, the listed duplicate-definition "
        "errors): modelled, not verified; compared with rustc only through the sampled definitions (accept/reject "
        "verdict of stable rustc, behaviour of the compiled glue)",
        "the syn-based reader that abstracts rustc's pretty-printed expansion into Macro.generated (harness/src/c17.rs); "
        "nightly rustc's -Zunpretty=expanded printer (drops r# on non-reserved identifiers, normalised by Macro.shown)",
        "attributes other than #[cfg] pass through the macro unmodelled; types are opaque ids; identifiers are ASCII",
    ],
    "level_text": "Theorems C17_glue_correct / C17_name_correct / C17_rejected_not_miscompiled / C17_wrong_variant_not_ok / "
                  "C17_monitor (Properties/C17.v, all closed under the global context): for EVERY service definition that the "
                  "model of #[tarpc::service] (gen, one Gallina function per generator fn, snake_to_camel over ASCII, the "
                  "derive-option parser, the new/serve checks) accepts and whose generated items contain no definition rustc "
                  "refuses, every enabled method m, every implementor, context and argument vector: the generated client fn "
                  "of m hands the stub the caller's context and a request named '<Service>.<method>' (identifiers as written, "
                  "raw prefix included), the generated server invokes exactly the implementor's m with exactly those "
                  "arguments in order and that context, and the caller receives that invocation's result; a response of any "
                  "other variant reaches the fallback arm, never Ok; every collision (same variant name, repeated / ctx / "
                  "self argument, new / serve raw or not) ends in a macro error or a duplicate definition, never in an "
                  "accepted program. C17_rejected_or_correct states the dichotomy for every definition at once (rejected, "
                  "or every enabled method connected to itself for every argument vector, Context-typed arguments "
                  "included); C17_ctx_argument_rejected: an argument called ctx - of any type - on an active method is "
                  "rejected (it is the one identifier of the expansion an argument could capture: the server arm's "
                  "request context), C17_ctx_context_argument_guard shows by computation that this rejection is the only "
                  "guard (with the client parameter renamed the relay `forward(ctx: Context)` is accepted and the "
                  "implementor receives the argument as the request's context), C17_expansion_names_harmless the other "
                  "generated identifiers. The semantics of the generated items (rustc) is the small one written in coq/Macro.v. "
                  "The model is tied to the real macro on every run by translation validation: for each generated "
                  "definition `gen def = items read from rustc's expansion of def` is checked by computation inside Coq, "
                  "the accept/reject verdict and error classes of stable rustc are compared with the model's, the "
                  "definitions are compiled and executed against a recording implementor and the recorded (method, "
                  "arguments, context, request name, returned value) compared with the model's prediction, and the monitor "
                  "is evaluated on the expansion and on the recorded runs.",
    "level_note": "Trusted: Coq kernel, vm_compute, the Rust harness (generator, syn reader of expansions, runner "
                  "generator), nightly's expansion printer, Python driver. Modelled not verified: rustc's name resolution, "
                  "argument passing, match semantics and duplicate-definition errors for items of the generated shape "
                  "(coq/Macro.v parts 3-4). Unmodelled: attributes other than #[cfg] (passed through), types (opaque ids; "
                  "rustc's type checking is not used by the proof), visibility, non-ASCII identifiers, the serde/derive "
                  "expansions (only the set of derived traits is compared), Channel/transport plumbing (the runner connects "
                  "the generated client to the generated server through tarpc's in-process Stub-for-Serve impl). Reading of "
                  "'<Service>.<method>': the macro keeps r# (C17_name_unraw_refuted documents that the bare-name reading is "
                  "false: `trait S { async fn r#fn(); }` reports \"S.r#fn\"). A service without an active method, or named "
                  "like a generic parameter of the generated impls (S), is rejected by rustc (harmless). Correspondence is "
                  "sampled, not proved.",
    "design_ref": "DESIGN.md section 6 (C17)",
    "assumptions": ["the implementor, stub and transport are outside the generated glue: the theorem is about what the "
                    "client fn hands to its stub and what the serve fn does with what it is handed",
                    "identifiers are ASCII; cfg predicates are evaluated once per compilation"],
}



# ------------------------------------------------------------------------------------------------
# Server side (harness/src/srv.rs, coq/Server.v, coq/ServerMon.v): C08, C12, C06, C04 and the
# server halves of C09, C10, C11, C14.  One script language and one case format; --prop only
# biases the generator.  `server_part(...)` builds a part for any of them.

SRV_HDR = HDR.format(mods="Transport TimerWheel Server ServerMon Checks.{chk}")
SRV_TB = AUDIT_TB + [
    "server model: tokio bounded mpsc (FIFO permit waiters; a permit returns when the receiver pops), tokio "
    "unbounded mpsc, futures Abortable (abort flag checked before the inner future is polled), Fuse, tokio-util "
    "DelayQueue at millisecond granularity (a timer is due when clock >= start + when_ms) are modelled, not "
    "verified; the order in which the real timer wheel hands out several due timers is replayed by an executable "
    "copy of the wheel (coq/TimerWheel.v) that no single-channel monitor theorem depends on (the observer ignores "
    "OOracle): a disagreement would surface as the observation OOracle, i.e. as a correspondence failure; inside the "
    "clock range 2^36 - 1 - MAX_TIMEOUT ms the copy is proved a correct priority queue and to agree with the model's "
    "due set (C16_dq_insert, C16_dq_poll, C16_server_oracle_agrees_cfg); the chain theorems are stated modulo oracle "
    "agreement, which that clock range guarantees (C04_chain_no_oracle)",
    "server harness: virtual clock by clock_gettime interposition + tokio paused clock; every poll by hand outside "
    "any runtime task; scripted transport (Rust twin of Transport.v's stransport); handlers are scripted futures "
    "wrapped by the real InFlightRequest::execute; a poll is aborted after 10 000 transport calls",
]
SRV_RULE = ("server scripts over ops {P poll Requests, R request, X cancel, E eof, r/f/c sink answers, F<m> one-shot "
            "fault, D drain, H<k> handler step through the real execute(), Q/Y drop execute future / unexecuted "
            "request, Z drop channel, A advance clock}; cfg: limit none/0..3, response buffer 1..3, transport "
            "capacity 0..3 coupled/independent; 6..60 ops (C11 bias: a sixth of the scripts 300..420 ops); generated "
            "WHILE RUNNING the real code so that the next op can look at the real in-flight count, handler phases, "
            "clock and sink state; the limiter is built both ways tarpc offers: Channel::max_concurrent_requests(L) for even "
            "response buffers, the Incoming adapter max_concurrent_requests_per_channel(L) (MaxRequestsPerChannel) for odd "
            "ones; all randomness from one splitmix64 stream; distinct = distinct script text; ")


def server_part(pid, chk, bias, nontrivial, rule_tail, quick=450, thorough=16000, name="server", **extra):
    """A part that runs the server driver with the given generator bias and Checks module."""
    part = {
        "name": name,
        "harness": "srv",
        "gen_args": ["--prop", bias],
        "cases_header": SRV_HDR.format(chk=chk),
        "case_term": lambda c: f"({c['cfg']}, {c['ops']}, {c['obs']})",
        "quick": {"count": quick},
        "thorough": {"count": thorough},
        "sweeps": [["--prop", bias]],
        "nontrivial": nontrivial,
        "rule": SRV_RULE + rule_tail,
        "max_shrinks": 3,
        "shrink_budget": 24,
    }
    part.update(extra)
    return part


def srv_known_bit(pid, part):
    """Known-class predicate on the SHRUNK script: re-run it and ask the check function whether the
    rejection is fully explained by the known class (verdict bit 2: the full-strength monitor rejects,
    the relaxed monitor that exempts exactly that class's obligations accepts)."""
    def pred(small):
        import os
        from . import vcheck as V
        odir = os.path.join(V.OUT, pid)
        os.makedirs(odir, exist_ok=True)
        ops = os.path.join(odir, "known.ops.txt")
        tsv = os.path.join(odir, "known.cases.tsv")
        with open(ops, "w") as f:
            f.write(small + "\n")
        V.harness(["srv", "run", "--in", ops, "--out", tsv])
        cases = V.read_cases(tsv)
        codes = V.eval_cases(pid, part(), cases)
        return bool(codes[0] & 4)
    return pred


SRV_ASSUME_ATOMIC = ("one op (one poll of the Requests stream, one poll or drop of one execute() future, one "
                     "delivery, one clock step) is atomic; handlers run on the thread that polls the channel")
SRV_ASSUME_B1 = ("reuse_only_after_completion (B1): the peer re-sends a request id only while it is surely in flight "
                 "(duplicate) or after a response bearing it was transmitted; necessary, see the _refuted theorem")
SRV_ASSUME_STOP = ("stops_after_error: the application does not poll the Requests stream again after it yielded an "
                   "error (tarpc's execute() stops there); the server does not latch transport failures; discharged for a "
                   "channel driven through tarpc's own execute() adapter (the *_exec theorems)")
SRV_ASSUME_CLOCK = ("virtual clock below 2^35 ms in the generated scripts; the exact range in which the timer-wheel transliteration is a correct priority queue and the server model's order oracle provably agrees is clock <= 2^36 - 1 - MAX_TIMEOUT = 37183476735 ms (C16_dq_poll, C16_server_oracle_agrees_cfg for every configuration; beyond it: TimerWheelWitness)")
SRV_K1_WITNESS = "L=1,B=1,C=0,K=c|R1.1000.7.5 P X1.7 R2.1000.7.6 P"
SRV_K2_WITNESS = "L=1,B=1,C=0,K=c|R1.100.7.5 P H0 r0 A400 P H0 r1 P H0"

C08_PART = server_part(
    "C08", "C08check", "c08",
    nontrivial=lambda c: "yield" in c["tags"] and ("resp-write" in c["tags"] or "req-dup-inflight" in c["tags"]
                                                   or "handler-aborted" in c["tags"]),
    rule_tail="C08 bias: fresh / duplicate-in-flight / reused-after-completion ids, cancels and closes interleaved, "
              "handler completion in every order, response buffers 1..3; non-trivial = the real channel yielded a "
              "request and then wrote a response, ignored a duplicate, or aborted a handler")
C12_PART = server_part(
    "C12", "C12check", "c12",
    nontrivial=lambda c: "throttle" in c["tags"] or "yield-fills-limit" in c["tags"],
    rule_tail="C12 bias: limits 0..3, cancels adjacent to requests (K1's shape), handler completion and response "
              "writing in every order, sink not ready; non-trivial = the real limiter throttled a request or a yield "
              "filled the limit",
    known_sigs={"FreedInSamePoll": srv_known_bit("C12", lambda: C12_PART)},
    known_witness={"FreedInSamePoll": SRV_K1_WITNESS})
C06_PART = server_part(
    "C06", "C06check", "c06",
    nontrivial=lambda c: any(t in c["tags"] for t in ("poll@deadline", "poll@deadline-1", "poll@deadline+1",
                                                       "aborted-after-deadline", "expired-on-arrival")),
    rule_tail="C06 bias: clock steps to deadline-1 / deadline / deadline+1 of a live request, deadlines from already "
              "expired to beyond the timer range, limiter x sink-not-ready x clock steps; non-trivial = the real "
              "channel was polled within 1 ms of a live request's deadline, or aborted a handler after its deadline, "
              "or received a request that had already expired",
    known_sigs={"LimiterBlockedOnSink": srv_known_bit("C06", lambda: C06_PART)},
    known_witness={"LimiterBlockedOnSink": SRV_K2_WITNESS})
C04_PART = server_part(
    "C04", "C04check", "c04",
    nontrivial=lambda c: any(t in c["tags"] for t in ("cancel@notstarted", "cancel@running", "cancel@waitbuf",
                                                       "cancel@buffered", "cancel@written")),
    rule_tail="C04 bias: a Cancel at every position relative to handler start, completion, response buffering and "
              "response write, 1..4 concurrent requests, with/without limiter, sink-not-ready periods; non-trivial = "
              "the real channel read a Cancel for a request it had yielded (any phase)")
C04_CHAIN_PART = {
    "name": "chain",
    "harness": "srv",
    "gen_args": ["--prop", "c04chain"],
    "cases_header": HDR.format(mods="ServerChain Checks.C04chain"),
    "case_term": lambda c: f"({c['cfg']}, {c['ops']}, {c['obs']})",
    "quick": {"count": 150},
    "thorough": {"count": 3000},
    "sweeps": [["--prop", "c04chain"]],
    "nontrivial": lambda c: "chain-quiescent-after-abandon" in c["tags"] or "chain-deadline-passes" in c["tags"],
    "rule": "REAL chains of depth 1..3: node i = client::new + dispatch over an in-memory transport to "
            "BaseChannel::requests(); the handler of server i makes a nested call with its context on client i+1; the "
            "last handler waits for the script; wake-driven execution with the real wakers, virtual time; scripts "
            "{call, single polls of head/dispatch/stream/handlers along the pipeline, w = run to quiescence, x = abandon "
            "the head call, leaf = let the last handler finish, t = advance clock}: the head call is abandoned after the "
            "request has propagated 0..all hops, or after completion, or the 10 s deadline passes instead; no model is "
            "compared for chains, the monitor c04_chain_ok alone decides (after abandonment + quiescence every "
            "started handler has ended and every server has 0 in flight); non-trivial = abandonment (or deadline) "
            "followed by a run to quiescence",
    "max_shrinks": 3,
    "shrink_budget": 20,
}


# ---- SERVER HALVES of C09 / C10 / C11 / C14 / C18 (ready-made parts; the owning SPECS entry adds the part to its
# "parts" list and "Checks/<chk>.vo" to its "coq_targets"; corpus of a part: corpus/<pid>/server/*.txt) ----
def _tags(*tags):
    return lambda c: any(t in c["tags"] for t in tags)


C14_SERVER_PART = server_part(
    "C14", "C14server", "c14",
    nontrivial=_tags("ready-pending", "flush-pending", "notready-but-flush-ok", "fault-ready", "fault-send",
                     "fault-flush"),
    rule_tail="C14 bias: sink not ready / flush pending / not ready while the flush completes (F3's shape), capacity 0 "
              "and 1 transports coupled and independent, one-shot faults of every transport method, drains between "
              "polls; the monitor is Transport.contract_ok over the per-poll call logs of the real Requests stream up "
              "to the first poll that yields an error; non-trivial = the real channel met a not-ready sink, a pending "
              "flush or an armed fault")
C11_SERVER_PART = server_part(
    "C11", "C11server", "c11", quick=300,
    nontrivial=_tags("drained-to-zero", "long"),
    rule_tail="C11 bias: long runs (a sixth of the scripts 300..420 ops) of requests that complete, are cancelled, "
              "expire, are throttled or are abandoned by the application, then a quiet period; the monitor compares "
              "the real in-flight and timer gauges after every op with the number of requests that may still be open; "
              "non-trivial = the real channel went from tracked requests back to 0 tracked, 0 timers, or ran a long "
              "script",
    known_sigs={"LimiterBlockedOnSink": srv_known_bit("C11", lambda: C11_SERVER_PART)},
    known_witness={"LimiterBlockedOnSink": SRV_K2_WITNESS},
    max_shrinks=2, shrink_budget=12)
C10_SERVER_PART = server_part(
    "C10", "C10server", "c10",
    nontrivial=_tags("stream-end"),
    rule_tail="C10 bias: end of stream from the peer at every point (nothing in flight, handlers running, responses "
              "buffered, sink not ready, flush pending); the monitor requires that the real Requests stream ends only "
              "after eof with nothing in flight, every buffered response written and the sink flushed, and that it "
              "does end once that holds; non-trivial = the real stream ended")
C09_SERVER_PART = server_part(
    "C09", "C09server", "c09", quick=200,
    nontrivial=_tags("stream-err", "aborted-by-channel-drop"),
    rule_tail="C09 bias: one-shot faults of poll_next / poll_ready / start_send / poll_flush at every point, dropping "
              "the channel with handlers not started / running / waiting for the buffer; the monitor requires that a "
              "transport failure surfaces as the stream's error with the failing activity, that after a dropped "
              "channel every execute() future completes without polling its handler again, and that nothing panics; "
              "non-trivial = the real stream yielded an error or a channel drop aborted a handler")
C18_SERVER_PART = server_part(
    "C18", "C18server", "c18",
    nontrivial=_tags("yield-sampled"),
    rule_tail="C18: every request carries a trace number 2*trace_id + sampled bit (trace ids 0..4, both sampling "
              "decisions), sent with span id 0; the observation of a yield reads trace id and sampling decision back "
              "from the context the real InFlightRequest hands to the handler (the span id drawn by the server is not "
              "observed); non-trivial = the real channel yielded a request whose context is Sampled")


# C02, server half: wake-driven runs of the real server (harness/src/srvw.rs, coq/ServerWake.v)
C02_SERVER_PART = {
    "name": "server-wake",
    "harness": "srvw",
    "gen_args": [],
    "cases_header": HDR.format(mods="Transport TimerWheel Server ServerWake Checks.C02server"),
    "case_term": lambda c: f"({c['cfg']}, {c['ops']}, {c['obs']})",
    "quick": {"count": 400},
    "thorough": {"count": 12000},
    "sweeps": [[]],
    "nontrivial": _tags("settle-resp-written", "handler-aborted", "buffered-after-wait", "settle-throttle"),
    "rule": "wake-driven server scripts: tasks = the real Requests stream and one real execute() future per yielded "
            "request; a task is polled ONLY after its own real waker fired (per-task flag wakers); ops {R request, X "
            "cancel, E eof, r/f sink answers, F<m> one-shot fault, D drain, G<k> handler k may proceed (wakes the waker "
            "the scripted handler registered), Q<k> drop execute future, Z drop channel, A advance clock (tokio's time "
            "driver fires the DelayQueue), S settle = poll woken tasks until none is woken}; never forced: response "
            "queue, response permits, server-side cancel queue, timers, AbortHandle::abort, closed receiver, the "
            "scripted transport's registered wakers; forced: arming a fault and a yield wake the stream task; the model "
            "polls EVERY live task round after round until nothing changes and is compared event by event (writes, "
            "reads, yields, handler completions/drops, execute() ends, stream result, gauges) inside Coq; cfg as the "
            "server scripts; 8..60 ops, generated while running the real code; thorough adds every 4-event sequence "
            "from a 9-event alphabet over 3 configurations (19 683 scripts); non-trivial = a settle in which the real "
            "stream wrote a response or a throttle reply, or a handler was aborted, or a sender that had waited for "
            "a place in the response queue got it",
    "max_shrinks": 3,
    "shrink_budget": 24,
}


# C14 / C09: the REAL Channel::execute(serve) adapter (harness/src/srvx.rs) against coq/ServerExec.v.
# NB the order of the modules in the header matters: ServerExec's `RErr` (an item of the Requests
# stream) must be shadowed by Transport's `RErr` (a poll_next answer), which is what case terms mean.
EXEC_PART = {
    "name": "exec",
    "harness": "srvx",
    "gen_args": [],
    "cases_header": HDR.format(mods="ServerExec ServerExecMon Transport TimerWheel Server ServerMon Checks.ExecCorr"),
    "case_term": lambda c: f"({c['cfg']}, {c['ops']}, {c['obs']})",
    "quick": {"count": 300},
    "thorough": {"count": 12000},
    "sweeps": [[]],
    "nontrivial": _tags("polled-after-error"),
    "rule": "execute() scripts: the harness builds the real BaseChannel [-> max_concurrent_requests(L)] over the "
            "scripted transport (for odd transport capacities behind TrackedChannel, the decorator handed out by "
            "Incoming::max_channels_per_key, whose Stream/Sink/Channel pass-throughs must be transparent), wraps it in a "
            "forwarding decorator Channel that only notes gauges / the request or "
            "error that came back (execute() consumes the channel), and calls the REAL Channel::execute(serve) = "
            "Requests::execute = take_while(is_ok).filter_map(ok).map(execute) with script-controlled handler "
            "futures; ops as the server scripts with P = poll the execute-stream, H<k> = poll the execute() future "
            "yielded as item k, Y<k> / Q<k> = drop item k before / after its first poll, Z = drop the execute-stream; "
            "a prefix (2..24 ops) from the state-aware server generator (fault, shutdown, contract, limiter biases), "
            "then in 3 of 5 scripts a one-shot fault at poll_ready / start_send / poll_flush / poll_next with the "
            "script POLLING ON while requests keep arriving, handlers keep finishing and further faults are armed; in "
            "1 of 5 end of stream followed by more polls (TakeWhile does not latch the end: the Requests stream is "
            "polled again); in 1 of 5 no error; every observation (inner call log, what the Requests stream returned, "
            "what the adapter returned, handler events, gauges) compared with ServerExec.exec_run inside Coq; "
            "thorough adds every 5-op sequence from an 8-op alphabet (requests, handler finish, faults at next / "
            "flush / ready, eof, polls) with and without limiter (65 536 scripts); non-trivial = the real Requests "
            "stream yielded an error and the script polled the execute-stream again afterwards",
    "max_shrinks": 3,
    "shrink_budget": 24,
}


def _server_spec(pid, parts, level_text, level_note, assumptions):
    chks = []
    for p in parts:
        chks.append("Checks/" + p["cases_header"].split("Checks.")[-1].split(".")[0] + ".vo")
    return {
        "pid": pid,
        "coq_targets": [f"Properties/{pid}.vo"] + chks,
        "parts": parts,
        "trusted_base": COMMON_TB + SRV_TB,
        "level_text": level_text,
        "level_note": level_note,
        "design_ref": f"DESIGN.md section 6 ({pid}), section 7 (K1, K2, B1), Appendix A.2",
        "assumptions": assumptions,
    }


SPECS["C08"] = _server_spec(
    "C08", [C08_PART], level_text="State-form theorems, for EVERY transport and every state (Properties/C08.v): a request whose id is tracked is refused by start_request (C08_duplicate_ignored); a response is handed to the transport only while its id is tracked and that untracks it, so at most one response per tracked incarnation leaves the channel (C08_response_tracked_written_once); a response for an untracked id (cancelled, expired, already answered) is dropped without any transport call (C08_response_untracked_dropped); the hypothesis reuse_only_after_completion is necessary (C08_reuse_after_cancel_refuted, B1: the second request is answered with the first handler's value). The full trace-level property (every request read is yielded exactly once or ignored as a duplicate; every response written answers the latest open incarnation of its id with exactly the value its handler completed with; nothing after the channel is dropped) is the executable monitor c08_ok (coq/ServerMon.v), evaluated inside Coq on the observations of the REAL BaseChannel -> [MaxRequests] -> Requests -> InFlightRequest::execute for hundreds (thorough: 16 000 + a 33 614-script exhaustive sweep) of generated scripts, each also replayed on the model coq/Server.v and compared observation by observation.",
    level_note="Trusted: Coq kernel, vm_compute, the Rust harness (scripted transport, virtual clock by clock_gettime interposition, hand polling) and the Python driver. Modelled, not verified: tokio bounded/unbounded mpsc, futures Abortable, Fuse, tokio-util DelayQueue (ms granularity; the order among several due timers is replayed by an executable copy of the timer wheel that no single-channel monitor theorem depends on; inside the clock range 2^36 - 1 - MAX_TIMEOUT ms it is proved a correct priority queue that agrees with the model's due set: C16_dq_poll, C16_server_oracle_agrees_cfg). Correspondence between coq/Server.v and the real BaseChannel/Requests/MaxRequests/execute is sampled (every transport call, yield, handler event and both gauges compared inside Coq), not proved. The observer/model simulation (coq/ServerSim*.v) is proved along every run for every transport (ServerSim6.run_top: the unconditional invariant InvU through every polling loop, poll result and application-side op) and two verdict flags are threaded through it (ServerSim7.server_never_early: trace well formed, no early abort); the theorem 'the full monitor accepts every run of the model' is PROVED for every transport, environment, configuration and op list (statements pinned in coq/ServerSpec.v, proofs coq/ServerProofsP*.v over the hypothesis-dependent invariant InvH, restated as the *_monitor theorems of Properties) and the monitor is also evaluated on the real code's traces on every run. Hypotheses: reuse_only_after_completion (B1), stops_after_error, one op is atomic.",
    assumptions=[SRV_ASSUME_ATOMIC, SRV_ASSUME_B1, SRV_ASSUME_STOP])
SPECS["C12"] = _server_spec(
    "C12", [C12_PART], level_text="Theorems for EVERY transport, configuration (L = 0 included) and op list (Properties/C12.v): MaxRequests::poll_next hands a request on only if with it at most L are tracked (C12_maxreq_below_limit), and in every run the in-flight gauge right after a yield is at most L (C12_yield_within_limit, by induction over op lists with the invariant 'timer queue and request table hold the same ids'). K1: the clause 'refused only if L really were in flight' is false of the code; the witness theorem C12_freed_in_same_poll_witness shows request 2 throttled with 0 in flight, rejected by the full monitor and accepted by the relaxed one. Clauses (b) exactly one throttle reply per refused request, never yielded, and (c) outside the class FreedInSamePoll are the executable monitors c12_ok / c12_rel_ok (coq/ServerMon.v), evaluated on the real code's traces for every generated script (limits 0..3, cancels adjacent to requests, sink not ready), each also replayed on the model and compared; a rejection is a KNOWN-FINDING only if the relaxed monitor, which exempts exactly the obligations that arise after capacity was freed earlier in the same Requests poll, accepts the shrunk script.",
    level_note="Trusted: Coq kernel, vm_compute, the Rust harness (scripted transport, virtual clock by clock_gettime interposition, hand polling) and the Python driver. Modelled, not verified: tokio bounded/unbounded mpsc, futures Abortable, Fuse, tokio-util DelayQueue (ms granularity; the order among several due timers is replayed by an executable copy of the timer wheel that no single-channel monitor theorem depends on; inside the clock range 2^36 - 1 - MAX_TIMEOUT ms it is proved a correct priority queue that agrees with the model's due set: C16_dq_poll, C16_server_oracle_agrees_cfg). Correspondence between coq/Server.v and the real BaseChannel/Requests/MaxRequests/execute is sampled (every transport call, yield, handler event and both gauges compared inside Coq), not proved. The observer/model simulation (coq/ServerSim*.v) is proved along every run for every transport (ServerSim6.run_top: the unconditional invariant InvU through every polling loop, poll result and application-side op) and two verdict flags are threaded through it (ServerSim7.server_never_early: trace well formed, no early abort); the theorem 'the full monitor accepts every run of the model' is PROVED for every transport, environment, configuration and op list (statements pinned in coq/ServerSpec.v, proofs coq/ServerProofsP*.v over the hypothesis-dependent invariant InvH, restated as the *_monitor theorems of Properties) and the monitor is also evaluated on the real code's traces on every run. Known finding K1 (FreedInSamePoll) is reproduced on every run from its committed witness. The expiry variant of K1 (capacity freed by an expiry in the same inner poll) is only visible to the model-level class, not to the observer's count.",
    assumptions=[SRV_ASSUME_ATOMIC, SRV_ASSUME_B1])
SPECS["C06"] = _server_spec(
    "C06", [C06_PART], level_text="State-form theorems, for EVERY transport and every state (Properties/C06.v): the timer armed for a request is due at min(deadline, now + 365 days) or later (C06_timer_not_before_deadline; the F5 clamp is part of the statement); expiry only ever takes a due timer, aborts exactly that request and leaves the others (C06_expiry_never_early, C06_expiry_frame); when BaseChannel::poll_next goes idle no timer is due and no server-side cancel is pending (C06_idle_means_enforced); an aborted execute() never polls its handler again (C04_aborted_never_progresses). Trace form, by induction over op lists with the observer/model simulation invariant (coq/ServerSim*.v): C06_never_early_monitor - in EVERY run, for every transport whose fuel measure decreases with each item it hands out, no execute() ends without its handler having completed unless the request's Cancel was read, its deadline timer was due or the channel was dropped, and the trace is well formed. K2: with MaxRequests at its limit and the sink not ready the inner channel is not polled, so enforcement waits for the sink: witness theorem C06_limiter_blocked_on_sink_witness. The trace-level property (no abort before the timer is due; no handler progress and nothing written after the poll that had to process the expiry; other requests unaffected) is the executable monitor c06_ok / c06_rel_ok, evaluated on the real code's traces under a virtual clock stepped to deadline-1 / deadline / deadline+1, with deadlines from already expired to beyond the timer range, with and without limiter, sink ready or not; each script is also replayed on the model and compared.",
    level_note="Trusted: Coq kernel, vm_compute, the Rust harness (scripted transport, virtual clock by clock_gettime interposition, hand polling) and the Python driver. Modelled, not verified: tokio bounded/unbounded mpsc, futures Abortable, Fuse, tokio-util DelayQueue (ms granularity; the order among several due timers is replayed by an executable copy of the timer wheel that no single-channel monitor theorem depends on; inside the clock range 2^36 - 1 - MAX_TIMEOUT ms it is proved a correct priority queue that agrees with the model's due set: C16_dq_poll, C16_server_oracle_agrees_cfg). Correspondence between coq/Server.v and the real BaseChannel/Requests/MaxRequests/execute is sampled (every transport call, yield, handler event and both gauges compared inside Coq), not proved. The observer/model simulation (coq/ServerSim*.v) is proved along every run for every transport (ServerSim6.run_top: the unconditional invariant InvU through every polling loop, poll result and application-side op) and two verdict flags are threaded through it (ServerSim7.server_never_early: trace well formed, no early abort); the theorem 'the full monitor accepts every run of the model' is PROVED for every transport, environment, configuration and op list (statements pinned in coq/ServerSpec.v, proofs coq/ServerProofsP*.v over the hypothesis-dependent invariant InvH, restated as the *_monitor theorems of Properties) and the monitor is also evaluated on the real code's traces on every run. Known finding K2 (LimiterBlockedOnSink) is reproduced on every run from its committed witness. Hypotheses: none on the clock for the monitor theorems (the observer ignores OOracle); the generated scripts stay below 2^35 ms and the order oracle provably agrees up to 2^36 - 1 - MAX_TIMEOUT = 37183476735 ms (C16_server_oracle_agrees_cfg; the DelayQueue range beyond it is the environment hypothesis dq_env of C16); deadlines more than 365 days away are enforced after 365 days (F5 clamp); reuse_only_after_completion and stops_after_error for the clause 'no progress after expiry'.",
    assumptions=[SRV_ASSUME_ATOMIC, SRV_ASSUME_B1, SRV_ASSUME_STOP, SRV_ASSUME_CLOCK])
SPECS["C04"] = _server_spec(
    "C04", [C04_PART, C04_CHAIN_PART], level_text="State-form theorems, for EVERY transport and every state (Properties/C04.v): a Cancel for a tracked id sets the abort flag of that request's handle, forgets the request (in-flight count drops) and removes its timer (C04_cancel_stops_tracked); an execute() whose handle is aborted never polls its handler again and buffers no response (C04_aborted_never_progresses); a Cancel for an untracked id leaves the state unchanged (C04_cancel_unknown_frame); the cascade clause is C04_chain_cascade (part compose, below). The hypothesis reuse_only_after_completion is necessary (C04_reuse_after_cancel_refuted). Part server: the monitor c04_ok on the real server's traces with a Cancel at every position relative to handler start, completion, response buffering and response write, 1..4 concurrent requests, with/without limiter, sink-not-ready periods. Part chain (monitor only, no model): wake-driven real chains of depth 1..3 (client::new + BaseChannel::requests per node, nested calls with the handler's context, virtual time) checked by c04_chain_ok: after abandonment (or the deadline) and quiescence every started handler has ended and every server has 0 in flight.",
    level_note="Trusted: Coq kernel, vm_compute, the Rust harness (scripted transport, virtual clock by clock_gettime interposition, hand polling) and the Python driver. Modelled, not verified: tokio bounded/unbounded mpsc, futures Abortable, Fuse, tokio-util DelayQueue (ms granularity; the order among several due timers is replayed by an executable copy of the timer wheel that no single-channel monitor theorem depends on; inside the clock range 2^36 - 1 - MAX_TIMEOUT ms it is proved a correct priority queue that agrees with the model's due set: C16_dq_poll, C16_server_oracle_agrees_cfg). Correspondence between coq/Server.v and the real BaseChannel/Requests/MaxRequests/execute is sampled (every transport call, yield, handler event and both gauges compared inside Coq), not proved. The observer/model simulation (coq/ServerSim*.v) is proved along every run for every transport (ServerSim6.run_top: the unconditional invariant InvU through every polling loop, poll result and application-side op) and two verdict flags are threaded through it (ServerSim7.server_never_early: trace well formed, no early abort); the theorem 'the full monitor accepts every run of the model' is PROVED for every transport, environment, configuration and op list (statements pinned in coq/ServerSpec.v, proofs coq/ServerProofsP*.v over the hypothesis-dependent invariant InvH, restated as the *_monitor theorems of Properties) and the monitor is also evaluated on the real code's traces on every run. Part `chain` (wake-driven real chains through the srv driver) has no model: its monitor alone decides; part `compose` compares the composition model Chain.v observation by observation. C04_cascade_partial (abstract composition with hypotheses) is kept for reference and superseded by C04_chain_cascade. Waker behaviour (abort wakes the execute() task) is assumed, not modelled.",
    assumptions=[SRV_ASSUME_ATOMIC, SRV_ASSUME_B1, SRV_ASSUME_STOP])

# ---------------------------------------------------------------------------------------------
# Client-side parts: one driver (harness `cli`), one model (Client.v), one monitor fold
# (ClientMon.v); each property has its own Checks module selecting its verdict.
CLIENT_TB = AUDIT_TB + [
    "modelled, not verified: tokio bounded/unbounded mpsc, tokio oneshot, tokio-util DelayQueue "
    "(ms granularity), futures Fuse, as sequential data structures (Client.v header)",
    "the transport is universally quantified in the theorems (any state type, any behaviour); the "
    "correspondence runs the scripted instance (Transport.v `stransport`, harness/src/stransport.rs)",
    "virtual time: the harness interposes clock_gettime (harness/src/vclock.rs) and advances "
    "tokio's paused clock by the same amount",
    "verification hooks under --cfg tarpc_verif: read-only gauges, yield points in ResponseGuard::drop",
    "expiry order among simultaneously due timers is DelayQueue-internal (slot stacks, cascades); the client model uses "
    "a canonical order; the driver detects the dispatch polls in which that order is observable (an expiry with >= 2 "
    "due requests followed, in the same poll, by a response for one of them) and compares such a script only up to "
    "that poll (tag truncated:timer-order-observable in the evidence histogram)",
]
CLIENT_RULE = ("scripts over ops {clone/drop handle, call(deadline,trace,body), poll call, drop call "
               "(atomic or split close/cancel via the yield hook), poll dispatch, drop dispatch, advance clock, "
               "deliver response/server error/eof, set ready/flush/close, one-shot fault per transport "
               "method, drain}; request buffer 1..3, in-flight limit 1..3, transport capacity 0..3 coupled or "
               "independent; state-aware generation from one splitmix64 stream, biased per property "
               "(--prop); 6..45 ops (40..120 for C11)")


def client_part(prop, checks_mod, nontrivial, extra_rule, quick=500, thorough=20000, name="client"):
    return {
        "name": name,
        "harness": "cli",
        "gen_args": ["--prop", prop],
        "cases_header": HDR.format(mods=f"Transport Client ClientS ClientMon Checks.{checks_mod}"),
        "case_term": lambda c: f"({c['cfg']}, {c['ops']}, {c['obs']})",
        "quick": {"count": quick},
        "thorough": {"count": thorough},
        "nontrivial": nontrivial,
        "rule": CLIENT_RULE + "; non-trivial = " + extra_rule + "; distinct = distinct script text",
    }


def has(*tags):
    return lambda c: any(t in c["tags"] for t in tags)


SPECS["C14"] = {
    "pid": "C14",
    "coq_targets": ["Properties/C14.vo", "Checks/C14client.vo"],
    "parts": [client_part("c14", "C14client", has("sink-not-ready", "send-failed", "fault-armed"),
                          "the real dispatch met a not-ready sink, a failed write or an armed fault")],
    "trusted_base": COMMON_TB + CLIENT_TB,
    "level_text": "Client half proved: C14_client_contract - for EVERY transport (any state type and behaviour), "
                  "configuration and op list, the per-poll transport call log of the client dispatch model satisfies the "
                  "contract monitor (write only when licensed by poll_ready->Ready(Ok); never after close or after a "
                  "ready/flush/close failure; never idle with unflushed writes unless the flush/close is pending or the "
                  "transport failed; bounded re-polling of a not-ready sink); C14_client_poll_total - every dispatch poll "
                  "terminates within fuel linear in the queue lengths on the scripted transport. The model is tied to the real "
                  "RequestDispatch by replaying generated scripts (not-ready sinks, capacity-1 coupled/independent "
                  "transports, faults) and comparing every transport call inside Coq; the same monitor runs on the real "
                  "call logs and a poll is aborted after 10 000 transport calls.",
    "level_note": "Client and server halves are both claimed (see level_text): the raw Requests stream up to the first poll that yields an error (stops_after_error), every poll through tarpc's own execute(). "
                  "Trusted: Coq kernel, vm_compute, harness, driver. Modelled not verified: tokio/futures primitives. "
                  "Correspondence is sampled. The repaired ensure_writeable (fix: 67e6e2e) is what the model describes; the "
                  "pre-fix spin is re-detected when that commit is reverted.",
    "design_ref": "DESIGN.md section 6 (C14)",
    "assumptions": ["one op is atomic (one poll, one drop step, one delivery)",
                    "fewer than 2^64 operations where a statement says no_wrap"],
}

# True since fix 8afb23d (F7): the generated client stubs return an error instead of `unreachable!()`
# for a response of another method's variant (before it that case class panicked on the real code)
C16_WRONG_VARIANT = True

SPECS["C16"] = {
    "pid": "C16",
    "harness": "c16",
    "translator": wire_translator,
    "runner": wire_runner,
    "coq_targets": ["Properties/C16.vo", "Checks/C16check.vo", "GenChecks/C16.vo"],
    "gen_obligations": ["gen_max_timeout", "gen_default_deadline", "gen_rfc3339_cap", "gen_deserialize_checked_add",
                        "gen_timers_clamped", "gen_deadline_field_saturates", "gen_client_message_shape",
                        "gen_response_shape"],
    "cases_header": ("From Coq Require Import List NArith ZArith Bool.\nImport ListNotations.\n"
                     "From TarpcV Require Import Base Schema Time Framing Hostile Checks.C16check.\n"
                     "Local Open Scope N_scope.\n"),
    "case_term": lambda c: f"({c['cfg']}, {c['ops']}, {c['obs']})",
    "gen_args": ["--wrong-variant"] if C16_WRONG_VARIANT else [],
    "run_args": ["--wrong-variant"] if C16_WRONG_VARIANT else [],
    "quick": {"count": 500},
    "thorough": {"count": 12000},
    "sweeps": [[]],
    "shrink_budget": 40,
    "known_sigs": {"eof-after-length-header":
                   lambda small: small.startswith("mode=stream") and (",cut=4|" in small or ",cut=4," in small) and " G:" not in small
                   and "|G:" not in small},
    "known_witness": {"eof-after-length-header":
                      "mode=stream,sub=none,codec=bincode,rd=2.0.3,cut=4|"
                      "F:0107000000000000000000000000000000030001 F:0107000000000000000000000000000000030001 Z"},
    "nontrivial": lambda c: any(t in c["tags"] for t in (
        "beyond-timer-range", "beyond-year-9999", "overflows-instant", "nanos-carry", "deadline-omitted",
        "duplicate-flood", "past-deadline", "garbage", "cut", "cut-after-header", "payload-rejected", "wrong-variant")),
    "rule": "one script = one real endpoint under one of three subscriber configurations (none, tracing_subscriber fmt at "
            "TRACE, OpenTelemetry SDK tracer through tracing-opentelemetry): SERVER (BaseChannel + Requests over the real "
            "serde transport, JSON or bincode): 3..10 frames written WITHOUT tarpc's serializer, so that every (secs : u64, "
            "nanos : u32) can be sent: requests with remaining times from {0, 1 s, 1 year, 1 year + 1 s, the timer range "
            "2^36-1 ms +- 1, 3 years, 100 years, year 9999 +- 1 s, i64::MAX s +- 1, u64::MAX} x nanos {0, 1, 10^9 - 1, 10^9, "
            "2 * 10^9 - 1, u32::MAX} or omitted (JSON), echo or never-ending handlers, reuse of ids in flight, floods of 2..300 "
            "duplicates, cancels for used and never-used ids (boundary ids 0, 250, 251, 2^16, 2^32, 2^64 - 1), always ending "
            "with a probe request that must be served; half of the JSON server and client scripts write every struct of "
            "every frame in its ARRAY form (serde's visit_seq: request, context, trace context, Duration as [secs,nanos], "
            "responses, ServerError) or in a mixed form, with the same boundary deadlines incl. the Duration overflow; a third of the server and client scripts START with a quiet "
            "connection age from {0, 1, 65, 100, 300, 429 days} (both clocks advance, no timer armed or fired, so the timer "
            "wheel lags the clock - all inside dq_env, whose limit is 430.36 days) followed by a request / local call whose "
            "deadline is 2, 3, 100 or 285 years away (timer clamped to MAX_TIMEOUT: age + clamp must fit the wheel); CLIENT (client::new dispatch): calls whose deadline is now +/- the same "
            "durations, responses for in-flight and never-used ids, a final probe call; STREAM: 1..3 frames (valid payloads, "
            "bit flips, truncated / random / extended payloads), unframed garbage (oversize headers, random bytes, short "
            "tails), the stream cut inside its last frame at 1, 2, 3, 4, 5, 6, 9 or 17 bytes, into both decoders under "
            "byte-at-a-time / straddling / coalesced reads. Every poll of tarpc code runs under catch_unwind. Compared: every "
            "observation (handler started / served / aborted, read error, panic, call sent with its wire deadline, call "
            "completion, items yielded and kind of stream end). non-trivial = a boundary beyond the timer range / year 9999 / "
            "the Instant range, a carrying nanos value, an omitted deadline, a duplicate flood, a deadline in the past, "
            "garbage, a cut, or a payload the codec rejects; distinct = distinct script text; thorough adds the bounded-"
            "exhaustive family: all 16 x 6 (secs, nanos) pairs x 3 subscribers x 2 codecs for the server and 16 x 2 for the "
            "client, every quiet age x every far deadline (server and client, both codecs), and every cut position 1..39 "
            "of a two-frame stream under both codecs",
    "trusted_base": COMMON_TB + WIRE_TB + [
        "panic detection: std::panic::catch_unwind around every poll of tarpc code, with the panic hook silenced",
    ],
    "level_text": "Theorems C16_no_panic_run and C16_monitor: for every script of well-typed peer messages (every u64 id, "
                  "every wire deadline in u64 x u32 or omitted, echo / never-ending handlers, duplicate floods, cancels and "
                  "responses for any id), every local caller deadline that is an Instant, every stream of frames and garbage "
                  "under every chunking and cut, and every subscriber configuration, the model of the endpoint never reaches "
                  "Panic, serves every probe, sends every call and ends a stream cut inside a frame with an error; they rest on "
                  "C16_decode_no_panic, C16_arm_no_panic, C16_field_no_panic, C16_server_no_panic, C16_client_no_panic over "
                  "EVERY Duration in u64 x [0,10^9), EVERY Instant chosen by a caller and every clock value in the stated "
                  "environment ranges (C16_std_env_ok / C16_std_env_aged_ok: the harness's clocks and quiet ages lie inside them; "
                  "C16_wheel_env_necessary, C16_arm_lag_refuted, C16_aged_lag_refuted: the ranges are needed); a stream of "
                  "frames cut inside its last frame ends with an error on the full transport model too "
                  "(C16_truncated_frames_error; header-only cut: C16_truncation_header_refuted, known finding). The pre-fix "
                  "behaviours are documented by C16_*_prefix_refuted with concrete witnesses. The timer queue itself: the "
                  "transliteration of tokio-util's DelayQueue wheel (coq/TimerWheel.v, third-party: modelled) is proved a "
                  "correct priority queue inside its range - C16_dq_init, C16_dq_insert, C16_dq_poll (never early, complete, "
                  "no loss or duplication, least deadline first) - and the server model's order oracle provably agrees with "
                  "the model's due set for every configuration, transport and op list while the clock stays at or below "
                  "2^36 - 1 - MAX_TIMEOUT ms (C16_server_oracle_agrees, C16_server_oracle_agrees_cfg); beyond the range it is "
                  "not (TimerWheelWitness; C16_dq_incomplete_inside_insert_contract: a candidate tokio-util defect near the "
                  "2^36 ms maximum, irrelevant to tarpc's clamped timeouts, shown on the transliteration only). "
                  "The constants and the three repairs the model relies on are re-derived from /repo on every run "
                  "(GenChecks/C16.v); the model's observations are compared with a real server, a real client dispatch and "
                  "the real framed decoders inside Coq on every generated script.",
    "level_note": "Trusted: Coq kernel, vm_compute, translator, Rust harness, Python driver. Modelled not verified: "
                  "std::time arithmetic, tokio_util DelayQueue's range and ms rounding, humantime's RFC 3339 range, "
                  "LengthDelimitedCodec. NOT modelled: payload decoding by bincode/serde_json on malformed input (their "
                  "panic-freedom is tested only: random and mutated frames under catch_unwind). Residual boundary (assumption, "
                  "lemma C16_arm_lag_refuted): DelayQueue::insert still panics on a connection whose timer queue has been "
                  "quiet for more than 2^36-1 ms minus MAX_TIMEOUT (about 430 days) before a request arrives. Known finding "
                  "(KNOWN_FINDINGS eof-after-length-header, lemma C16_truncation_header_refuted): a stream cut exactly after "
                  "a 4-byte length header ends cleanly instead of with an error. The wrong-variant response class "
                  "(generated client stubs) is generated (C16_WRONG_VARIANT = True since fix 8afb23d: the stubs return an "
                  "error instead of panicking). Correspondence is sampled.",
    "design_ref": "DESIGN.md section 6 (C16)",
    "assumptions": [
        "monotonic clock: Instant::now() stays at least MAX_TIMEOUT + 1 s below i64::MAX seconds (mono_env)",
        "wall clock: SystemTime::now() is not before 1970-01-01 (wall_env)",
        "timer queue lag: when a request arrives, the endpoint's DelayQueue was created, or last fired a timer, at most "
        "dq_lag_max = 2^36 - 1 - 31 536 000 000 = 37 183 476 735 ms (about 430 days) earlier (dq_env); beyond it "
        "DelayQueue::insert panics although the timeout is clamped (C16_arm_lag_refuted, C16_aged_lag_refuted); the "
        "generator's quiet ages stay at or below 429 days (C16_std_env_aged_ok: up to 37 183 476 s)",
        "the timer wheel is not ahead of the clock by 10 s or more and the queue is younger than u64::MAX ms (wheel_env; "
        "physically always true; necessary: C16_wheel_env_necessary)",
        "std::time::Instant::now() and tokio's clock agree (both follow the harness's virtual clock)",
    ],
}


def _client_only(pid, prop, checks_mod, nontrivial, extra_rule, level_text, level_note, sweeps=None):
    part = client_part(prop, checks_mod, nontrivial, extra_rule)
    if prop == "c05":
        part["cases_header"] = HDR.format(mods=f"Transport Client ClientS ClientMon ClientMon2 Checks.{checks_mod}")
    if sweeps:
        part["sweeps"] = sweeps
        part["rule"] += "; thorough adds every sequence of 5 ops over {poll call 0/1, poll dispatch, " \
                        "answer id 0 twice / id 1, abandon call 0, step the clock past the deadlines} after two calls, " \
                        "for (buffer, limit) = (1,1) and (2,2)"
    return {
        "pid": pid,
        "coq_targets": [f"Properties/{pid}.vo", f"Checks/{checks_mod}.vo"],
        "parts": [part],
        "trusted_base": COMMON_TB + CLIENT_TB,
        "level_text": level_text,
        "level_note": level_note,
        "design_ref": f"DESIGN.md section 6 ({pid})",
        "assumptions": ["one op is atomic (one poll, one drop step, one delivery)",
                        "fewer than 2^64 operations (request ids do not wrap)"],
    }


_CLIENT_NOTE = ("Trusted: Coq kernel, vm_compute, harness, driver. Modelled not verified: tokio mpsc/oneshot, "
                "tokio-util DelayQueue, futures Fuse as sequential data. Correspondence (explicit-poll mode) is sampled, "
                "not proved. OS-thread interleavings below poll granularity are outside the model. ")

SPECS["C01"] = _client_only(
    "C01", "c01", "C01client", has("done:reply", "done:srverr"),
    "a caller of the real client received a reply or a server error",
    "Theorem C01_client_monitor: for EVERY transport, configuration and op list (< 2^64 ops) the client model's "
    "trace is accepted by the C01 monitor - a caller gets a reply / server error only if a response with that body "
    "for its own request id was read after its request was written, and no call completes twice (simulation "
    "relation observer<->model, ids handed out in first-poll order are unique; ClientSimBase.v). Tied to the real "
    "Channel/RequestDispatch by replaying generated scripts (concurrent calls over cloned handles, answers "
    "reordered, duplicated, unknown, late) and comparing every observation inside Coq; the monitor also runs on "
    "the real traces.",
    _CLIENT_NOTE + "The clause 'responses whose id matches no outstanding call are discarded without disturbing any "
    "other call' is covered by the frame lemma unknown_id_frame (state equality) and by the correspondence.",
    sweeps=[["--len", "5"]])

SPECS["C05"] = _client_only(
    "C05", "c05", "C05client", has("done:deadline"),
    "a caller of the real client received a deadline error",
    "Theorem C05_client_monitor: for EVERY transport, configuration and op list the client model's trace is accepted "
    "by the C05 monitor - a deadline error only for a transmitted request, never before the (absolute) deadline, and "
    "not if a response for that id was read before the deadline; invariant: every timer fires at max(deadline, "
    "transmission time) for deadlines within MAX_TIMEOUT (365 d, the clamp introduced by fix 44cf918). Tied to the "
    "real client under virtual time (clock stepped to deadline-1, deadline, deadline+1; replies racing expiry; "
    "queueing delay from a not-ready sink or a full in-flight table).",
    _CLIENT_NOTE + "Promptness ('once its deadline passes, to timer granularity') is the second theorem "
    "C05_client_prompt (monitor ClientMon2.c05p_ok, also run on the implementation's traces): after a dispatch poll "
    "that returned Pending at clock T no transmitted request that is due at T leaves its caller pending. Deadlines "
    "beyond 365 days fire at the clamp and are exempted by the monitors.",
    sweeps=[["--len", "5"]])

SPECS["C18"] = _client_only(
    "C18", "c18", "C18client", has("wire-cancel", "in-flight>=1"),
    "the real dispatch wrote a request or a cancellation",
    "Theorem C18_client_monitor: for EVERY transport, configuration and op list the client model writes every request "
    "with its caller's trace id, sampling decision, deadline and body and its own span id, each id once, and every "
    "cancellation with exactly the trace context of its request. Tied to the real client (no subscriber installed) by "
    "correspondence with distinct trace ids on concurrent requests and cancellation at every point; random span ids "
    "are compared only through equalities (a request's span id is named after its request id).",
    _CLIENT_NOTE + "Partial: the server half (the handler observes the same trace id and sampling with a fresh span "
    "id) and multi-hop chains are covered by the server model's Yield observations and by the chain driver, not by "
    "this theorem; 'fresh' means drawn anew, distinctness of random 64-bit values is not claimed; runs with an "
    "OpenTelemetry subscriber are not modelled.")

SPECS["C07"] = {
    "pid": "C07",
    "harness": "c07",
    "translator": wire_translator,
    "runner": wire_runner,
    "coq_targets": ["Properties/C07.vo", "Checks/C07check.vo", "GenChecks/C07.vo"],
    "gen_obligations": ["gen_default_deadline", "gen_client_message_shape", "gen_client_message_shape_wf",
                        "gen_max_timeout", "gen_deserialize_checked_add"],
    "cases_header": ("From Coq Require Import List NArith ZArith Bool.\nImport ListNotations.\n"
                     "From TarpcV Require Import Base Time Hops Checks.C07check.\nLocal Open Scope Z_scope.\n"),
    "case_term": lambda c: f"({c['cfg']}, {c['ops']}, {c['obs']})",
    "quick": {"count": 600},
    "thorough": {"count": 15000},
    "sweeps": [[]],
    "shrink_budget": 40,
    "nontrivial": lambda c: "multi-hop" in c["tags"] or "sent-after-expiry" in c["tags"]
    or "deadline-omitted" in c["tags"] or "zero-remaining" in c["tags"] or "sub-millisecond" in c["tags"]
    or "years" in c["tags"],
    "rule": "one script = one real chain of 1..3 hops: for every hop a client::new dispatch and a BaseChannel/Requests "
            "server whose handler reads ctx.deadline (the context it is given, or context::current() under the "
            "OpenTelemetry layer) and makes a nested call with that same context on the next hop; transports: "
            "tarpc::serde_transport with JSON or bincode over byte queues that the script moves, or "
            "transport::channel::unbounded; virtual time (clock_gettime interposition + tokio's paused clock), every "
            "future polled by hand. Tokens: one root call with remaining time from {0, 1 ns, 999 ns, 1 ms, 1 s -+ 1 ns, "
            "10 s, 1 h, 1 day, 1 / 3 / 100 / 285 years}, clock advances from {0, 1, 2, 7, 100, 999, 1000, 10^4, 1 h, 1 day} "
            "ms before every send and every delivery (a third of the scripts let the deadline pass before some hop is "
            "sent), hand-written JSON requests WITHOUT a deadline injected on a quarter of the JSON links. Compared: the "
            "Duration written on every link and the deadline every handler sees, in ns. non-trivial = at least two hops "
            "delivered, or a hop sent after expiry, or an omitted deadline, or a zero / sub-millisecond / multi-year "
            "remaining time; distinct = distinct script text; thorough adds the bounded-exhaustive family: 14 remaining "
            "times x 7 x 3 transit delays x 3 transports over two hops, and 'sent one ms before / at / after the "
            "deadline' over three hops",
    "trusted_base": COMMON_TB + WIRE_TB + [
        "virtual time: harness/src/vclock.rs interposes clock_gettime for the whole process, so std::time::Instant::now() "
        "inside tarpc follows the scripted clock",
    ],
    "level_text": "Main theorem C07_monitor: for every codec (JSON, bincode, in-memory), chain length and script of calls, "
                  "clock advances, sends, deadline-less injected requests and deliveries, the monitor accepts the model's "
                  "run: every handler sees D' with D <= D' <= max(D, ts) + (tr - ts), D' = tr when sent after expiry, "
                  "D' = tr + 10 s for an omitted deadline, D' = D over the in-memory transport, and the Duration written is "
                  "max(0, D - ts). Underneath: C07_deadline_hop (one hop, exact), C07_deadline_chain / _chain_late (n hops by "
                  "induction: 0 <= D_n - D_0 <= sum of transit times), C07_hop_total (never an error), C07_default_deadline, "
                  "C07_json_deadline_omitted, C07_duration_exact_bincode / _json (the Duration is carried exactly by both "
                  "codecs, from the C15 round trips), and for the JSON TEXT layer C07_json_text_deadline_omitted (a request "
                  "written without a `deadline` member, any whitespace, parses and is marked omitted) and "
                  "C07_duration_exact_json_text. The default, MAX_TIMEOUT, the checked add and the serde shape of the "
                  "context are re-derived from /repo on every run; the model's observations are compared with real 1-3 hop "
                  "chains inside Coq on every generated script.",
    "level_note": "Trusted: Coq kernel, vm_compute, translator, Rust harness (incl. the clock interposition), Python driver. "
                  "Modelled not verified: std::time arithmetic. Partial: context::current() inside a handler reads the "
                  "deadline from the OpenTelemetry span context; that path is exercised by the harness (a sixth of the "
                  "scripts) and must give the same observations, but it is not modelled separately. Boundary (lemma "
                  "C07_deadline_hop_saturation_refuted): a deadline within transit time of the end of the Instant range "
                  "(about 292 billion years away) is decoded as now + MAX_TIMEOUT, i.e. EARLIER than the caller's deadline; "
                  "the theorems carry the representability premise and the generator stays below 292 years. "
                  "Correspondence is sampled, not proved.",
    "design_ref": "DESIGN.md section 6 (C07)",
    "assumptions": ["sender and receiver clocks are on one time line and the receiver's reading is not earlier than the "
                    "sender's (tr >= ts); the receiver's monotonic clock leaves room for MAX_TIMEOUT + 1 s below "
                    "i64::MAX seconds (mono_env)",
                    "the caller's deadline plus the accumulated transit time is representable as an Instant "
                    "(necessary: C07_deadline_hop_saturation_refuted)"],
}


SPECS["C09"] = {
    "pid": "C09",
    "coq_targets": ["Properties/C09.vo", "Checks/C09client.vo"],
    "parts": [client_part("c09", "C09client",
                          has("dispatch:err:ARead", "dispatch:err:AReady", "dispatch:err:AFlush",
                              "dispatch:err:AClose", "dispatch:err:AWrite", "send-failed", "done:connerr"),
                          "a transport fault actually hit the real dispatch (terminal error, failed request write or a "
                          "caller seeing a connection error)")],
    "trusted_base": COMMON_TB + CLIENT_TB,
    "level_text": "Client half proved: C09_client_monitor - for EVERY transport, configuration and op list the client model's "
                  "trace is accepted by the C09 monitor: the first fatal failure (read/ready/flush/close error or a failed "
                  "cancellation write) is the activity the dispatch ends with, a failed request write fails only that call, "
                  "the transport is never touched after a fatal failure, every connection error a caller sees names that "
                  "activity, and once the dispatch has failed or was dropped no call stays pending. Tied to the real client by "
                  "replaying scripts that arm a one-shot fault on each transport method at arbitrary points with calls in "
                  "every stage, and EOF at every point; every poll runs under catch_unwind (a panic is an observation the "
                  "monitor rejects).",
    "level_note": _CLIENT_NOTE + "Server half (stream yields Err naming the activity, serving stops, handlers aborted on drop) "
                  "is being added from the server model. 'None hangs' is proved for explicit polls of the model; that the "
                  "tasks are actually woken is C02's subject.",
    "design_ref": "DESIGN.md section 6 (C09)",
    "assumptions": ["one op is atomic (one poll, one drop step, one delivery)",
                    "fewer than 2^64 operations (request ids do not wrap)"],
}


SPECS["C10"] = {
    "pid": "C10",
    "coq_targets": ["Properties/C10.vo", "Checks/C10client.vo"],
    "parts": [client_part("c10", "C10client", has("last-handle-dropped", "dispatch:ok"),
                          "the last handle was dropped or the real dispatch completed successfully")],
    "trusted_base": COMMON_TB + CLIENT_TB,
    "level_text": "Client half proved: C10_client_monitor - for EVERY transport, configuration and op list the client model "
                  "never writes after poll_close was called, calls poll_close only when no handle or live call future is left, "
                  "all calls are done or abandoned and every abandoned transmitted request has been cancelled on the wire (or "
                  "had ended), completes successfully only after end-of-stream or a completed close, and leaves no caller "
                  "pending once it was dropped or failed. Tied to the real client by scripts that drop handles, close or "
                  "half-close the peer at every point with queued, in-flight, abandoned and completed calls.",
    "level_note": _CLIENT_NOTE + "Server half (the Requests stream ends only after inbound EOF, no request in flight and a "
                  "completed flush) is being added from the server model. 'Fails instead of hanging' after peer EOF relies "
                  "on the executor dropping the finished dispatch future; the model makes that an explicit op.",
    "design_ref": "DESIGN.md section 6 (C10)",
    "assumptions": ["one op is atomic (one poll, one drop step, one delivery)",
                    "fewer than 2^64 operations (request ids do not wrap)"],
}


SPECS["C03"] = _client_only(
    "C03", "c03", "C03client", has("abandon"),
    "a call future of the real client was dropped after it had been polled",
    "Theorem C03_client_monitor: for EVERY transport, configuration and op list the client model's trace is accepted by "
    "the C03 monitor - a cancellation per id at most once, only after its request, never for a call that resolved, and "
    "after every clean idle dispatch poll every abandoned transmitted request is cancelled on the wire unless it had "
    "ended (answered, failed to write, deadline or longest timer span passed); invariant: a call's oneshot receiver is "
    "closed before its id enters the cancel queue, and cancel_request removes the id so a second cancel finds nothing. "
    "Tied to the real client by abandonment at every suspension point against an idle / at-capacity / not-ready "
    "dispatch, with the guard's drop split between close and cancel through the yield hook (H3) in half of the "
    "abandonments.",
    _CLIENT_NOTE + "Without hook H3 a swap of close() and cancel() in ResponseGuard::drop would be invisible at poll "
    "granularity; with it the split op GuardClose/GuardCancel has an implementation counterpart.",
    sweeps=[["--len", "5"], ["--family", "volume"]])


SPECS["C02"] = {
    "pid": "C02",
    "coq_targets": ["Properties/C02.vo", "Checks/C02check.vo", "Checks/C02alt.vo"],
    "parts": [{
        "name": "wake",
        "harness": "cliw",
        "cases_header": HDR.format(mods="Transport Client ClientS ClientWake Checks.C02check"),
        "case_term": lambda c: f"({c['cfg']}, {c['ops']}, {c['obs']})",
        "quick": {"count": 600},
        "thorough": {"count": 20000},
        "nontrivial": has("done:reply", "done:deadline", "done:connerr", "done:shutdown", "wire-cancel"),
        "rule": "wake-driven scripts: external events (calls, abandonments, handle drops, responses, eof, clock steps, "
                "readiness/flush changes, one-shot faults, drains, dispatch drop), most followed by a Settle op; no task "
                "is ever polled explicitly: in a Settle the real dispatch and call futures are polled only if their real "
                "waker fired (dispatch first, then calls in index order) until none is woken, while the model polls every "
                "live task to a fixpoint; request buffer 1..3, in-flight limit 1..3, capacity 0..3; non-trivial = a caller "
                "was actually resolved (reply, deadline, connection or shutdown error) or a cancellation was written during "
                "some settle; distinct = distinct script text",
    }, {
        "name": "wake-alt",
        "harness": "cliw",
        "run_args": ["--order", "alt"],
        "cases_header": HDR.format(mods="Transport Client ClientS ClientWake Checks.C02alt"),
        "case_term": lambda c: f"({c['cfg']}, {c['ops']}, {c['obs']})",
        "quick": {"count": 400},
        "thorough": {"count": 20000},
        "nontrivial": has("done:reply", "done:deadline", "done:connerr", "done:shutdown", "wire-cancel"),
        "rule": "the same wake-driven scripts under a SECOND fair schedule: in a Settle the woken call futures are polled "
                "first, in descending index order, the dispatch last. The quiet state legitimately depends on the order "
                "(which queued call gets the free slot), so nothing is compared with the model (verdict bit 0 is never "
                "set): the C02 monitor, which only uses what a schedule-independent observer sees (who resolved, whether "
                "something is in flight, whether every delivered response was read), decides on the real trace; "
                "non-trivial and distinct as in part wake",
    }],
    "trusted_base": COMMON_TB + CLIENT_TB + [
        "wake-driven harness (harness/src/cli.rs `settle`): per-task wake flags; the scripted transport wakes whoever its "
        "last Pending answer registered (read / ready / flush / close); only arming a fault force-wakes the dispatch; "
        "tarpc's own wake sources (request queue, cancel queue, oneshots, DelayQueue timers, semaphore permits) are never "
        "forced",
    ],
    "level_text": "PARTIAL by nature. Proved about the model driven to quiescence (poll everything until nothing changes): "
                  "C02_dead_resolved (after the dispatch failed or was dropped no call is left unresolved), "
                  "C02_quiescent_resolved (on a writable transport a still-unresolved call waits only for a reply or a "
                  "deadline: something is in flight, every timer lies in the future, its request is in flight or queued "
                  "behind a full table), C02_settles (driving to quiescence always terminates: no settle runs out of its "
                  "rounds or of dispatch fuel), C02_poll_total (every dispatch poll returns within fuel linear in the queue "
                  "lengths), and C02_monitor (the executable C02 monitor that runs on the real wake-driven traces accepts "
                  "every wake-driven run of the model; request buffer >= 1). That the real tasks are WOKEN whenever the model's fixpoint makes progress is checked, not "
                  "proved: the wake-driven correspondence polls the real client only where its real wakers fired and "
                  "requires exactly the model's outcomes after every settle; a lost wakeup shows up as a stall (the C02 "
                  "monitor rejects a dispatch that failed with a caller left pending, and an unresolved call with "
                  "nothing in flight on a writable transport).",
    "level_note": _CLIENT_NOTE + "Not modelled: wake flags / registration discipline of tokio and futures primitives "
                  "(assumed to follow their documented contracts), OS-thread scheduling. The server's Requests stream and "
                  "every execute() future are covered by part server-wake (polled only where their real wakers fired); "
                  "handler-internal tasks are scripted futures.",
    "design_ref": "DESIGN.md section 6 (C02), section 0",
    "assumptions": ["a spurious wakeup is always allowed", "fewer than 2^64 operations",
                    "the theorems about wake-driven runs are for ONE fixed fair schedule (dispatch first, then calls in "
                    "index order, until nothing is woken); the real client is additionally run under a second schedule "
                    "(part wake-alt: calls in descending order first, dispatch last) and judged by the monitor alone; "
                    "the server likewise (part server-wake-alt: woken execute() futures in descending order first, "
                    "the Requests stream last; monitor alone); other schedules are neither proved nor tested "
                    "(AUDIT.md round 2, F15)",
                    "request buffer and in-flight limit >= 1"],
}


SPECS["C11"] = {
    "pid": "C11",
    "coq_targets": ["Properties/C11.vo", "Checks/C11client.vo"],
    "parts": [client_part("c11", "C11client", has("in-flight>=1"),
                          "the real dispatch tracked at least one request (so gauges are informative); runs are 40..120 ops "
                          "long so that table slots are reused; thorough adds the volume family (1000+ abandoned calls "
                          "piling stale ids into the cancellation queue before a genuine cancellation)")],
    "trusted_base": COMMON_TB + CLIENT_TB,
    "level_text": "Client half proved: C11_client_bound (every transport, every op list, no hypothesis: tracked requests <= "
                  "max_in_flight and pending timers = tracked requests after every dispatch poll) and C11_client_monitor "
                  "(in addition: once every call is done or abandoned and the dispatch went idle after a clean poll, zero "
                  "requests and zero timers remain; invariant 'every in-flight id is covered by an awaiting call or a queued "
                  "cancel' + 'a clean Pending poll empties the cancel queue'). Tied to the real client by long runs with slot "
                  "reuse, all removal routes (reply, cancel, expiry, send failure, terminal error, guard drop, dispatch drop) "
                  "and the read-only gauges of hook H2 compared after every dispatch poll.",
    "level_note": _CLIENT_NOTE + "Server half (in_flight equals the yielded incarnations not yet answered, cancelled, expired "
                  "or abandoned; timers = tracked) is being added from the server model; K2 delays server reclamation and is "
                  "a known finding there.",
    "design_ref": "DESIGN.md section 6 (C11)",
    "assumptions": ["one op is atomic (one poll, one drop step, one delivery)",
                    "fewer than 2^64 operations for the reclaimed clause"],
}


# ---------------------------------------------------------------------------------------------
# Wiring of the server halves (parts defined in the server block above).
def _add_server_half(pid, part, chk, note, assumes):
    sp = SPECS[pid]
    sp["parts"] = sp["parts"] + [part]
    sp["coq_targets"] = sp["coq_targets"] + [f"Checks/{chk}.vo"]
    sp["trusted_base"] = sp["trusted_base"] + SRV_TB
    sp["assumptions"] = sp["assumptions"] + assumes
    sp["level_text"] = sp["level_text"] + " " + note
    sp["level_note"] = sp["level_note"].replace("is being added from the server model", "is part of this check (see level_text)")


_add_server_half("C14", C14_SERVER_PART, "C14server",
    "Server half proved: C14_server_contract - for EVERY transport, environment, configuration and op list the per-poll "
    "call log of Requests/MaxRequests satisfies the same contract monitor (every failed write fatal), up to the first "
    "poll that yields an error (boundary stops_after_error, refuted without it by C14_server_unrestricted_refuted; for a channel driven through tarpc's own execute() adapter the boundary is discharged: C14_exec_stops_after_error, C14_server_contract_exec over EVERY poll, coq/ServerExec.v with the futures-util TakeWhile/FilterMap/Map semantics modelled, not verified); "
    "C14_server_poll_total - no poll of the stream runs out of fuel. Tied to the real BaseChannel/MaxRequests/Requests "
    "by the `srv` driver over the same scripted transport. Over the composition of the client and server models "
    "(coq/Chain*.v, every depth, every op list, every state): C14_chain_poll_fuel - no poll of a RequestDispatch or of a "
    "Requests stream of any node runs out of fuel; C14_chain_fuel_iff_rounds (the monitor Chain.cfuel_ok then says "
    "exactly that no SettleAll ran out of rounds: C04_chain_rounds); the unconditional pinned form is refuted beyond the "
    "DelayQueue range (C14_chain_fuel_pinned_refuted).",
    [SRV_ASSUME_ATOMIC, SRV_ASSUME_STOP])
_add_server_half("C11", C11_SERVER_PART, "C11server",
    "Server half: C11_server_timers_track_requests proved (every transport: timers and request table hold the same ids "
    "in every reachable state; gauges agree after every op); the full server monitor (in_flight = yielded incarnations "
    "not yet answered, cancelled, expired or abandoned; outside the K2 class) runs on the real traces on every run and "
    "is PROVED for every transport and op list: C11_server_monitor_rel (blocked polls exempt, no class excluded) and C11_server_monitor (full strength outside the K2 class), statements ServerSpec.stmt_s11_rel / stmt_s11 (hypotheses B1 and stops_after_error inside the monitor); for a channel driven through tarpc's own execute() adapter stops_after_error is discharged: C11_server_monitor_rel_exec, C11_server_monitor_exec - only B1 (and the known class K2) remains. K2 is a KNOWN FINDING (C11_server_K2_witness).",
    [SRV_ASSUME_ATOMIC, SRV_ASSUME_B1, SRV_ASSUME_STOP])
_add_server_half("C10", C10_SERVER_PART, "C10server",
    "Server half: C10_server_base_end proved (BaseChannel ends only after end of stream with nothing tracked); the full "
    "server monitor (the Requests stream ends only after inbound EOF, no request in flight, and a completed flush after "
    "the last write) is PROVED for every transport and op list (C10_server_monitor = ServerSpec.stmt_s10) and runs on the real traces on every run.",
    [SRV_ASSUME_ATOMIC])
_add_server_half("C09", C09_SERVER_PART, "C09server",
    "Server half: C09_server_drop_aborts proved (dropping the channel aborts every tracked request; an aborted execute() "
    "never polls its handler again); the full server monitor (a failing transport call ends the poll, which reports that "
    "activity; nothing after it; no panic) is PROVED for every transport and op list (C09_server_monitor = ServerSpec.stmt_s09) "
    "and runs on the real traces on every run; for a channel driven through tarpc's own execute() adapter "
    "(take_while/filter_map/map, coq/ServerExec.v, futures-util semantics modelled and tied to the real adapter by part exec) the hypothesis stops_after_error is "
    "discharged: C09_server_monitor_exec leaves only B1.",
    [SRV_ASSUME_ATOMIC, SRV_ASSUME_B1, SRV_ASSUME_STOP])
_add_server_half("C18", C18_SERVER_PART, "C18server",
    "Server half proved: C18_server_monitor - for EVERY transport the request handed to the application carries the id, "
    "deadline, body, trace id and sampling decision of the request read (the server's own span id is a fresh draw). "
    "Tied to the real BaseChannel by the `srv` driver, which decodes trace id and sampling decision of the context the "
    "real InFlightRequest hands out.",
    [SRV_ASSUME_ATOMIC])
SPECS["C18"]["level_note"] = SPECS["C18"]["level_note"].replace(
    "Partial: the server half (the handler observes the same trace id and sampling with a fresh span "
    "id) and multi-hop chains are covered by the server model's Yield observations and by the chain driver, not by "
    "this theorem;", "Multi-hop: C18_chain_trace over the composition model (part compose);")


# C02, server half: wake-driven Requests stream + execute() futures
C02_SERVER_ALT_PART = dict(C02_SERVER_PART)
C02_SERVER_ALT_PART.update({
    "name": "server-wake-alt",
    "run_args": ["--order", "alt"],
    "cases_header": HDR.format(mods="Transport TimerWheel Server ServerWake Checks.C02salt"),
    "quick": {"count": 300},
    "thorough": {"count": 12000},
    "rule": "the wake-driven server scripts of part server-wake under a SECOND fair schedule: in every round of a settle "
            "the woken execute() futures are polled first, in descending index order, the Requests stream last. The "
            "order of the events inside a settle legitimately depends on the schedule, so nothing is compared with the "
            "model (verdict bit 0 is never set): the monitor c02s_ok, which judges what holds once nothing is woken any "
            "more, decides on the real trace; scripts, non-trivial and distinct as in part server-wake (the generator "
            "runs the real code under the first schedule)",
})
SPECS["C02"]["parts"] = SPECS["C02"]["parts"] + [C02_SERVER_PART, C02_SERVER_ALT_PART]
SPECS["C02"]["coq_targets"] = SPECS["C02"]["coq_targets"] + ["Checks/C02server.vo", "Checks/C02salt.vo"]
SPECS["C02"]["trusted_base"] = SPECS["C02"]["trusted_base"] + SRV_TB
SPECS["C02"]["level_text"] += (
    " Server side (part server-wake): the real Requests stream and every real execute() future are polled only after "
    "their own wakers fired (response queue, response permits, server-side cancel queue, DelayQueue timers, abort "
    "handles and the transport's registered wakers are never forced) and must reach exactly the outcomes of the "
    "server model driven to a fixpoint (ServerWake.settle); the monitor c02s_ok (no execute() left running after its "
    "cancel / deadline / the channel's drop, no finished handler or buffered response stuck while the sink is "
    "writable, every delivered message read) runs on the real traces; its two statements (settle terminates, the "
    "monitor accepts every model run) are pinned in ServerWakeSpec.v and PROVED: C02_server_settles (every transport "
    "state, every script) and C02_server_monitor (response buffer >= 1, wake-driven scripts), proofs "
    "ServerWakeSettles.v / ServerWakeMon*.v.")



# the server monitor theorems (proved after the specs above were written)
for _pid, _t in (
        ("C04", " MONITOR THEOREM proved: C04_monitor - for every transport, environment, configuration and op list the "
                "model's run is accepted by c04_ok (hypotheses B1 and stops_after_error inside the monitor); for a channel "
                "driven through tarpc's own execute() adapter (coq/ServerExec.v, futures-util TakeWhile/FilterMap/Map "
                "modelled) stops_after_error is discharged: C04_monitor_exec - only B1 remains."),
        ("C06", " MONITOR THEOREMS proved: C06_monitor_rel (blocked polls exempt, no class excluded) and C06_monitor (full "
                "strength outside the K2 class LimiterBlockedOnSink) - for every transport, environment, configuration "
                "and op list the model's run is accepted (hypotheses B1 and stops_after_error inside the monitor); for a "
                "channel driven through tarpc's own execute() adapter (coq/ServerExec.v, futures-util "
                "TakeWhile/FilterMap/Map modelled) stops_after_error is discharged: C06_monitor_rel_exec, "
                "C06_monitor_exec - only B1 (and the known class K2) remains."),
        ("C08", " MONITOR THEOREM proved: C08_monitor - for every transport, environment, configuration and op list the "
                "model's run is accepted by c08_ok (hypotheses B1 and stops_after_error inside the monitor); for a channel "
                "driven through tarpc's own execute() adapter (coq/ServerExec.v, futures-util TakeWhile/FilterMap/Map "
                "modelled) stops_after_error is discharged: C08_monitor_exec - only B1 remains."),
        ("C12", " MONITOR THEOREMS proved: C12_monitor_rel (capacity freed earlier in the same poll exempt, no "
                "class excluded) and C12_monitor (full strength outside the K1 class FreedInSamePoll) - for every "
                "transport, environment, configuration (L = 0 included) and op list; clauses (a) and (b) without "
                "hypothesis, clause (c) under B1 (inside the monitor: the count of requests possibly in flight is only "
                "meaningful while ids are reused as B1 allows). The same through tarpc's own execute() adapter "
                "(coq/ServerExec.v; the induced runs satisfy stops_after_error): C12_monitor_rel_exec, "
                "C12_monitor_exec - only B1 (and the known class K1) remains.")):
    SPECS[_pid]["level_text"] += _t


# execute() adapter (coq/ServerExec*.v, harness `srvx`): part `exec` of C14 and C09
EXEC_TB = [
    "execute() adapter model coq/ServerExec.v (futures-util 0.3 TakeWhile/FilterMap/Map transcribed) is tied to the real "
    "Channel::execute(serve) by the `srvx` driver; harness code between the script and the real adapter: a forwarding "
    "decorator Channel that notes gauges and the item that came back, and the boxing of the yielded futures",
]
for _pid in ("C14", "C09"):
    _sp = SPECS[_pid]
    _sp["parts"] = _sp["parts"] + [EXEC_PART]
    _sp["coq_targets"] = _sp["coq_targets"] + ["Checks/ExecCorr.vo"]
    _sp["trusted_base"] = _sp["trusted_base"] + EXEC_TB
    _sp["level_text"] += (
        " Part exec: the real Channel::execute(serve) stream is hand-polled (and polled ON after the Requests stream "
        "yielded an error) and compared observation by observation with ServerExec.exec_run inside Coq; monitor: "
        "stops_after_error and the contract over EVERY poll of the induced run, and no item / no inner poll after the "
        "error.")

# ---- C09 part ioerr: a failing BYTE STREAM under the shipped serde transport (coq/ReadFault.v, harness `ioerr`) ----
IOERR_PART = {
    "name": "ioerr",
    "harness": "ioerr",
    "gen_args": [],
    "run_args": [],
    "cases_header": HDR.format(mods="ReadFault Checks.C09ioerr"),
    "case_term": lambda c: f"({c['cfg']}, {c['ops']}, {c['obs']})",
    "quick": {"count": 300},
    "thorough": {"count": 5000},
    "sweeps": [[]],
    "nontrivial": has("read-failed"),
    "rule": "part ioerr: 0..6 responses (boundary ids) written by the real serde transport (bincode / JSON over "
            "LengthDelimitedCodec) into a buffer, optionally followed by the first 1..12 bytes of one more frame; the real "
            "transport reads them from a byte stream that hands them out in a cyclic chunk pattern (with Pending results) and "
            "then FAILS every poll_read with one of ten io::ErrorKinds (ConnectionReset, ConnectionAborted, BrokenPipe, "
            "TimedOut, UnexpectedEof, Other, NotConnected, PermissionDenied, InvalidData, InvalidInput); the items of the "
            "transport's Stream are compared with ReadFault.rf_model (every complete message, then an error item of kind "
            "Other whose source is the stream's error, then end) and judged by ReadFault.rf_ok (the failure is reported as "
            "an error item right after the last complete message, never as a clean end-of-stream); non-trivial = the byte "
            "stream's failing read was reached; thorough adds every kind x codec x {0,1,3} messages x 3 partial-frame "
            "lengths x 3 chunk patterns",
    "max_shrinks": 2,
}
_sp = SPECS["C09"]
_sp["parts"] = _sp["parts"] + [IOERR_PART]
_sp["coq_targets"] = _sp["coq_targets"] + ["Checks/C09ioerr.vo"]
_sp["trusted_base"] = _sp["trusted_base"] + [
    "part ioerr: tokio-util's FramedRead (complete buffered frames are decoded before the next read; a failing poll_read "
    "is yielded as Some(Err) and the stream then ends) and tokio-serde's Framed are modelled by ReadFault.rf_model, tied "
    "to the shipped transport by the ioerr driver, not verified"]
_sp["level_text"] += (
    " Part ioerr (third session): a failure of the byte stream UNDER the shipped serde transport is reported by the "
    "transport's Stream as an error item right after the last complete message and never as a clean end-of-stream "
    "(which the dispatch and the server channel would take for an orderly shutdown): C09_ioerr_model_ok, "
    "C09_ioerr_shape, C09_ioerr_clean_end_rejected about the model ReadFault.v; the real "
    "tarpc::serde_transport::Transport is driven over byte streams failing with ten io::ErrorKinds and compared item by "
    "item.")

# ---- C15 part sock: the tcp / unix front ends of the serde transport with custom framing (coq/SockFront.v) ----
SOCK_PART = {
    "name": "sock",
    "harness": "sock",
    "gen_args": [],
    "run_args": [],
    "cases_header": HDR.format(mods="SockFront Checks.C15sock"),
    "case_term": lambda c: f"({c['cfg']}, {c['ops']}, {c['obs']})",
    "quick": {"count": 200},
    "thorough": {"count": 3000},
    "sweeps": [[]],
    "nontrivial": has("custom-framing"),
    "rule": "part sock: REAL loopback TCP and unix-domain sockets through serde_transport::tcp::{listen, connect} and "
            "serde_transport::unix::{listen, connect}, the length-delimited framing set on BOTH sides through "
            "config_mut() (length field of 1, 2, 3, 4 or 8 bytes, big or little endian, frame limit 255 B .. 8 MiB), "
            "bincode / JSON, 1..7 messages in both directions with bodies from empty to just under what the length "
            "field and the frame limit allow; what each end reads is compared with SockFront.sk_model (every message "
            "intact, in order, end-of-stream after the writer is dropped) and judged by SockFront.sk_ok; non-trivial = the "
            "framing differs from the default; thorough adds every length-field width x byte order x transport x codec "
            "and a 9 MiB body under a raised frame limit; a run that cannot set its sockets up or hits a read timeout is "
            "repeated (at most twice); if plain tokio sockets of that kind (no tarpc code) do not work in the process "
            "either, the script decides nothing and is counted under NO-SOCKETS-IN-THIS-SANDBOX in the scenario histogram",
    "max_shrinks": 2,
}
_sp = SPECS["C15"]
_sp["parts"] = (_sp.get("parts") or [{}]) + [SOCK_PART]
_sp["coq_targets"] = _sp["coq_targets"] + ["Checks/C15sock.vo"]
_sp["trusted_base"] = _sp["trusted_base"] + [
    "part sock: the operating system's loopback TCP and unix-domain sockets and tokio's reactor carry the bytes (real, "
    "not modelled); the front ends are modelled as the identity on the message sequence (SockFront.v)"]
_sp["level_text"] += (
    " Part sock (third session): the socket front ends (tcp / unix listen, Incoming, connect futures and their "
    "config_mut()) are driven over real loopback sockets with non-default framing on both sides and must deliver every "
    "message intact, in order, and end-of-stream after the writer's drop: C15_sock_model_ok, C15_sock_ok_only about "
    "the model SockFront.v.")

# ---- C18 part threads: span ids of calls made from different OS threads (coq/SpanThreads.v, monitor only) ----
THREADS_PART = {
    "name": "threads",
    "harness": "spans",
    "gen_args": [],
    "run_args": [],
    "cases_header": HDR.format(mods="SpanThreads Checks.C18threads"),
    "case_term": lambda c: f"({c['cfg']}, {c['ops']}, {c['obs']})",
    "quick": {"count": 300},
    "thorough": {"count": 5000},
    "sweeps": [[]],
    "nontrivial": has("several-threads"),
    "rule": "part threads (monitor only): 1..8 calls on a real client over the in-memory transport, every call created and "
            "first polled (where Channel::call mints the request's span) on one of 1..4 freshly spawned OS threads; caller "
            "trace ids include 0, caller span ids 0 or random; the dispatch is then polled by hand and the requests are read "
            "at the server end; monitor SpanThreads.c18t_ok: every call's request arrives once with the caller's trace id "
            "and a span id that is neither the caller's nor shared with another request; nothing is compared with a model "
            "(a random draw has none); non-trivial = calls were made from at least two OS threads",
    "max_shrinks": 2,
}
_sp = SPECS["C18"]
_sp["parts"] = _sp["parts"] + [THREADS_PART]
_sp["coq_targets"] = _sp["coq_targets"] + ["Checks/C18threads.vo"]
_sp["level_text"] += (
    " Part threads (third session, monitor only): calls first polled on different OS threads must be transmitted with "
    "pairwise different span ids, each different from its caller's, and with the caller's trace id (C18_threads_sound: "
    "what an accepted trace guarantees).")

# ---- C14 part seq: the real dispatch over a transport scripted per call (monitor only) ----
SEQ_PART = {
    "name": "seq",
    "harness": "seqt",
    "gen_args": [],
    "run_args": [],
    "cases_header": HDR.format(mods="Transport Checks.C14seq"),
    "case_term": lambda c: f"({c['cfg']}, {c['ops']}, {c['obs']})",
    "quick": {"count": 500},
    "thorough": {"count": 20000},
    "sweeps": [[]],
    "nontrivial": has("fault-hit"),
    "rule": "part seq (monitor only): the real client dispatch over a transport whose answers are scripted PER CALL (the "
            "k-th poll_ready / poll_flush answers Ok / Pending / Err, the k-th start_send Ok / Err, the k-th poll_next "
            "Pending / Err / end, then Ok resp. Pending for ever), 3..14 ops over {new call, drop call i, poll the "
            "dispatch}; this reaches answer sequences inside one dispatch poll that the remote-controlled transport of "
            "part client cannot produce (poll_ready Pending, then Err after the flush); the per-poll call log is judged "
            "by Transport.contract_ok (no write without a licence, never after a reported failure or a close, no idle "
            "poll with unflushed writes, bounded re-polling); non-trivial = a scripted Err answer was reached; thorough "
            "adds every poll_ready answer string of length <= 3 x poll_flush string of length <= 2 over two op lists",
    "max_shrinks": 2,
}
_sp = SPECS["C14"]
_sp["parts"] = _sp["parts"] + [SEQ_PART]
_sp["coq_targets"] = _sp["coq_targets"] + ["Checks/C14seq.vo"]
_sp["level_text"] += (
    " Part seq (third session, monitor only): the real dispatch over a transport scripted per call, judged by the same "
    "contract monitor that C14_client_contract proves the model satisfies over every transport.")

# ---- chain composition (coq/Chain*.v, harness `chain`): parts of C04, C18, C07 ----
CHAIN_RULE = ("REAL chains of depth 1..3: node i = client::new + BaseChannel::with_defaults(rx).requests() over "
              "transport::channel::unbounded() (client end through a forwarding tap that notes successful writes); the handler "
              "of node i < depth is a real async block `client_{i+1}.call(ctx_of_request, body).await` inside the real "
              "InFlightRequest::execute(serve(..)); leaves scripted (run / Ok v / ServerError); every dispatch, Requests stream, "
              "execute future and head call polled explicitly under virtual time; scripts `d=<depth>|tok ..` over {C d:tid:smp:body "
              "head call, P j poll it, X j drop it, D i / R i poll dispatch / stream of node i, H i.k[=v|!] poll execute future k of "
              "node i, Z i / Y i drop dispatch / stream (and its transport end), A dt advance the one clock, S SettleAll = poll every "
              "component in a fixed order round after round until 3 rounds without event or gauge change}; generator: 3/4 structured "
              "(0..2 earlier calls settled first; the focus call carried hop by hop to a random stage, then: abandoned there / reply on "
              "its way back then abandoned / completes or leaf fails / deadline -1,0,+1 passes / explicit hop-by-hop cascade / earlier "
              "call abandoned / a link end dropped with a request or a cancellation unread in the link; then usually every other head "
              "call is finished or abandoned and a final SettleAll), 1/4 unstructured (any op at any time); distinct trace ids, "
              "both sampling decisions, deadlines 3 ms .. 100 s and rarely 2^36 ms; thorough adds the sweep (every depth x every "
              "abandonment stage on the way down and on the way back, one and two calls); compared inside Coq with coq/Chain.v: "
              "every wire write (id, deadline, trace, span name, body), yield (node, k, id, deadline, trace, body), handler event, "
              "caller result, dispatch/stream result and all four gauges per node")


def chain_part(nontrivial, rule_tail, quick=600, thorough=20000):
    return {
        "name": "compose",
        "harness": "chain",
        "cases_header": HDR.format(mods="Transport Chain ChainRespSpec Checks.Chaincheck"),
        "case_term": lambda c: f"({c['cfg']}, {c['ops']}, {c['obs']})",
        "quick": {"count": quick},          # 600 scripts: ~3 s harness + ~2 s coqc warm
        "thorough": {"count": thorough},
        "sweeps": [[]],                     # `harness chain sweep` (120 scripts)
        "nontrivial": nontrivial,
        "rule": CHAIN_RULE + "; non-trivial = " + rule_tail + "; distinct = distinct script text",
        "max_shrinks": 3,
        "shrink_budget": 40,
    }


C04_COMPOSE_PART = chain_part(
    lambda c: "settle-owed" in c["tags"] and "cascade-dropped-handlers" in c["tags"],
    "a SettleAll at which the cascade clause was owed (every head call over, nothing tainted) and during which the "
    "real chain dropped at least one running handler")
C18_COMPOSE_PART = chain_part(
    lambda c: "yield@node2" in c["tags"] or "yield@node3" in c["tags"],
    "the real chain yielded a request on node 2 or 3 (trace id / sampling followed the request across a hop)",
    quick=300, thorough=8000)
C07_COMPOSE_PART = chain_part(
    lambda c: ("yield@node2" in c["tags"] or "yield@node3" in c["tags"]),
    "the real chain yielded a request on node 2 or 3 (the deadline was carried across an in-memory hop)",
    quick=300, thorough=8000)


CHAIN_TB = [
    "composition model coq/Chain.v (client model + link + server model per node; nested call = the handler of node i "
    "calls client i+1 with the request's context); modelled, not verified: tokio unbounded mpsc as a FIFO with peer-gone "
    "flags (transport::channel::unbounded), an async block as 'first poll creates and polls the nested call, drop drops "
    "it'; wakers are not modelled in this part (every component is polled explicitly; wake behaviour is C02's)",
    "harness/src/chain.rs: real chains of depth 1..3 with a forwarding tap on the client end of each link that notes "
    "successful writes (KWire observations)",
    "the composition theorems are about transport::channel::unbounded() links (the Request moves by value, the deadline "
    "is carried verbatim); over serde_transport each hop re-bases the deadline and a decode error ends the connection: "
    "that composition is covered piecewise (C07_deadline_chain, C15, C16), not by Chain.v; no OpenTelemetry layer is "
    "installed (with one, trace id and sampling decision of a nested call come from the subscriber); the chain never "
    "drops an inner Channel handle, so the inner dispatches' all-senders-gone shutdown is not exercised in chains "
    "(AUDIT.md round 2, F9-F11)",
]
CHAIN_NOTE_C04 = (
    " COMPOSITION (part compose, coq/Chain*.v): C04_chain_cascade is proved for EVERY depth d and every op list of fewer "
    "than 2^64 - 1 ops over the composition of the client model and the server model (node i = client i, link, server i; "
    "handler of node i calls client i+1 with the request's context): at every SettleAll that reaches a quiet round, if "
    "every head call is resolved or abandoned and the run is untainted, every handler started on ANY node is Done or "
    "Dropped and every server's in-flight and timer gauges are 0. Untainted excludes: a dropped link end, an ended "
    "dispatch or request stream, fuel/rounds exhaustion, a disagreement of the timer-order oracle, and a head deadline "
    "above MAX_TIMEOUT (client and server clamp their timers at different instants, so a handler may run a few ms longer; "
    "stated as an exemption). It supersedes C04_cascade_partial (the cascade over an abstract n-node composition whose two client-side facts and one server-side fact were hypotheses; kept in Properties/C04.v for reference only). The same composition is run against REAL chains of "
    "depth 1..3 with every component polled explicitly and every wire write, yield, handler event, result and gauge "
    "compared inside Coq (Checks/Chaincheck.v). Also proved over the composition: no dispatch or stream poll of any "
    "node runs out of fuel (C14_chain_poll_fuel), the per-hop wire clause (C18_chain_wire), and SettleAll reaches a "
    "quiet round within its rounds budget whenever the timer-order oracle never disagrees (C04_chain_rounds, by a "
    "potential that no component poll increases: C04_chain_round_potential, C04_chain_settle_quiet; the unconditional "
    "form is refuted beyond the DelayQueue range, C14_chain_fuel_pinned_refuted); while the chain's clock stays at or "
    "below 2^36 - 1 - MAX_TIMEOUT ms the oracle provably never disagrees, so neither that taint nor a rounds overrun "
    "can occur (C04_chain_no_oracle, C04_chain_rounds_clock, C04_chain_clock_clean).")
for _pid, _part, _note in (
        ("C04", C04_COMPOSE_PART, CHAIN_NOTE_C04),
        ("C18", C18_COMPOSE_PART,
         " MULTI-HOP (part compose, coq/Chain*.v): C18_chain_trace is proved for every depth and every op list over the "
         "composition of the client and server models: the request yielded to a handler on ANY node carries the trace id "
         "and sampling decision of a head call with the same body; run against REAL chains of depth 1..3 (every wire "
         "write incl. span id, every yield compared inside Coq). The per-hop wire clause across the composition is "
         "proved too (C18_chain_wire / C18_chain_wire_all: on every link a request carries its own span id and the head "
         "call's trace number and deadline; a cancel is written only on a link where its request was written and "
         "repeats that request's trace and span) and evaluated on every real trace."),
        ("C07", C07_COMPOSE_PART,
         " MULTI-HOP over in-memory links (part compose, coq/Chain*.v): C07_chain_deadline is proved for every depth and "
         "every op list over the composition of the client and server models: the request yielded on ANY node carries "
         "the deadline (the Instant, verbatim) of a head call with the same body, also when it has already passed; run "
         "against REAL chains of depth 1..3.")):
    _sp = SPECS[_pid]
    _sp["parts"] = (_sp.get("parts") or [{}]) + [_part]
    _sp["coq_targets"] = _sp["coq_targets"] + ["Checks/Chaincheck.vo"]
    _sp["trusted_base"] = _sp["trusted_base"] + CHAIN_TB
    _sp["level_text"] = _sp["level_text"] + _note



# end-to-end response integrity over the composition (coq/ChainResp*.v): C01 and C08 get the compose part too
RESP_NOTE = (
    " END-TO-END over the composition (part compose, coq/ChainResp*.v, ChainIds.v; monitor ChainRespSpec.c01c_ok, also "
    "evaluated on every real chain trace): C01_chain_resp - for EVERY depth and every op list of fewer than 2^64 - 1 "
    "ops the response-integrity monitor accepts the run of the composition: a head call resolving Ok v means a node-0 "
    "handler that served THAT call's request finished with v, a non-leaf handler finishing Ok v means a handler of the "
    "next node serving its nested call's request did (so v is the leaf's value for that very request: "
    "C01_chain_value_provenance, C01_chain_body), no head call resolves twice or after it was dropped (C01_chain_once: "
    "every state, no hypothesis; rests on the all-states client invariant ClientWaiters.winv_step), a yielded request "
    "was written into that link with that id and body and incarnation numbers count yields (C08_chain_yield_written), "
    "a handler starts only for a yielded request and at most once (C08_chain_start_once), an id is yielded at most "
    "once per link (C08_chain_yield_once; untainted runs).")
for _pid in ("C01", "C08"):
    _sp = SPECS[_pid]
    _sp["parts"] = (_sp.get("parts") or [{}]) + [chain_part(
        lambda c: "head:reply" in c["tags"] and ("yield@node2" in c["tags"] or "yield@node3" in c["tags"]),
        "a head call of the real chain resolved with a reply that travelled back across at least one hop",
        quick=300, thorough=8000)]
    _sp["coq_targets"] = _sp["coq_targets"] + ["Checks/Chaincheck.vo"]
    _sp["trusted_base"] = _sp["trusted_base"] + CHAIN_TB
    _sp["level_text"] = _sp["level_text"] + RESP_NOTE

# ---------------------------------------------------------------------------------------------
# Translator side condition shared by C16 and C09: the panic-site inventory of the anchored
# sources must equal the pinned, justified map tools/panic_sites.json.
def panic_inventory():
    import subprocess, sys
    from . import vcheck as V
    p = subprocess.run([sys.executable, os.path.join(V.ROOT, "tools", "panic_sites.py"), "--repo", V.REPO],
                       stdout=subprocess.PIPE, stderr=subprocess.STDOUT, text=True)
    return p.returncode == 0, p.stdout[-2500:]


import os  # noqa: E402
for _pid in ("C16", "C09"):
    if _pid in SPECS:
        SPECS[_pid].setdefault("side_conditions", []).append(("panic_site_inventory", panic_inventory))
        SPECS[_pid]["trusted_base"] = SPECS[_pid]["trusted_base"] + [
            "translator: tools/panic_sites.py lists every unwrap/expect/panic!/unreachable!/assert!/indexing/"
            "modulo/DelayQueue insert/unchecked time arithmetic in the non-test code of the anchored files and "
            "compares it with the pinned, justified map tools/panic_sites.json on every run"]

# Translator side condition (C03, C11, C02, C13, C04 - the cascade relies on the cancellation queues being lossless): the queue inventory of the anchored sources must equal the pinned
# map tools/queue_inventory.json (every channel / queue construction with its capacity expression, every lossy op).
def queue_inventory():
    import subprocess, sys
    from . import vcheck as V
    p = subprocess.run([sys.executable, os.path.join(V.ROOT, "tools", "queue_inventory.py"), "--repo", V.REPO],
                       stdout=subprocess.PIPE, stderr=subprocess.STDOUT, text=True)
    return p.returncode == 0, p.stdout[-2500:]


for _pid in ("C03", "C11", "C02", "C13", "C04"):
    SPECS[_pid].setdefault("side_conditions", []).append(("queue_inventory", queue_inventory))
    SPECS[_pid]["trusted_base"] = SPECS[_pid]["trusted_base"] + [
        "translator: tools/queue_inventory.py lists every channel / queue / semaphore construction (with its capacity "
        "expression) and every lossy queue operation (try_send, try_recv, ...) in the non-test code of the anchored "
        "files and compares it with the pinned map tools/queue_inventory.json, which says how the models represent "
        "each (bounded by which configuration field, or unbounded), on every run"]
SPECS["C11"]["parts"][0]["sweeps"] = [["--family", "volume"]]
