"""The common flow of a property check (DESIGN.md section 3, verdict table)."""
import collections
import os
import sys
import time

from . import vcheck as V


def script_split(line):
    cfg, rest = line.split("|", 1)
    return cfg, rest.split()


def script_join(cfg, toks):
    return cfg + "|" + " ".join(toks)


class PropertyRun:
    def __init__(self, spec, tier, seed):
        self.spec = spec
        self.pid = spec["pid"]
        self.tier = tier
        self.seed = seed
        self.odir = os.path.join(V.OUT, self.pid)
        os.makedirs(self.odir, exist_ok=True)
        self.t0 = time.time()
        self.notes = []

    # ---- implementation + model on a list of script lines --------------------------------
    def run_scripts(self, lines, tag):
        ops_path = os.path.join(self.odir, f"{tag}.ops.txt")
        tsv_path = os.path.join(self.odir, f"{tag}.cases.tsv")
        with open(ops_path, "w") as f:
            f.write("\n".join(lines) + "\n")
        V.harness([self.spec["harness"], "run", "--in", ops_path, "--out", tsv_path]
                  + self.spec.get("run_args", []), timeout=self.spec.get("run_timeout", 1500))
        cases = V.read_cases(tsv_path)
        if len(cases) != len(lines):
            raise V.Infra(f"{len(lines)} scripts but {len(cases)} cases from the harness ({tag})")
        codes = V.eval_cases(self.pid, self.spec, cases)
        return cases, codes

    def fails_monitor(self, line):
        cases, codes = self.run_scripts([line], "shrink")
        return bool(codes[0] & 2)

    def shrink(self, line):
        cfg, toks = script_split(line)
        budget = self.spec.get("shrink_budget", 60)
        if len(toks) > 400:
            # volume scripts: one evaluation costs about a minute, and their point is the count
            budget = min(budget, 4)
        small = V.ddmin(toks, lambda t: self.fails_monitor(script_join(cfg, t)), budget=budget)
        return script_join(cfg, small)

    # ---- script sources -------------------------------------------------------------------
    def corpus_lines(self):
        lines = []
        cdir = os.path.join(V.ROOT, "corpus", self.pid)
        if os.path.isdir(cdir):
            for f in sorted(os.listdir(cdir)):
                if os.path.isdir(os.path.join(cdir, f)):
                    continue
                for line in open(os.path.join(cdir, f)):
                    line = line.strip()
                    if line and not line.startswith("#"):
                        lines.append(line)
        return lines

    def corpus_lines_sub(self, pname):
        lines = []
        cdir = os.path.join(V.ROOT, "corpus", self.pid, pname)
        if os.path.isdir(cdir):
            for f in sorted(os.listdir(cdir)):
                for line in open(os.path.join(cdir, f)):
                    line = line.strip()
                    if line and not line.startswith("#"):
                        lines.append(line)
        return lines

    def gen_lines(self, seed, count):
        out = V.harness([self.spec["harness"], "gen", "--seed", str(seed), "--count", str(count)]
                        + self.spec.get("gen_args", []))
        return [l for l in out.split("\n") if l.strip()]

    def sweep_families(self):
        fams = []
        for extra in self.spec.get("sweeps", []):
            out = V.harness([self.spec["harness"], "sweep"] + extra, timeout=1500)
            fams.append([l for l in out.split("\n") if l.strip()])
        return fams

    def sweep_lines(self):
        return [l for f in self.sweep_families() for l in f]


def proof_phase(spec, tier):
    with V.proof_lock():
        return _proof_phase(spec, tier)


def _proof_phase(spec, tier):
    """Steps 1-3. Returns a dict; `proof_break` is set when a proof no longer checks."""
    pid = spec["pid"]
    if "translator" in spec:
        spec["translator"]()
    bad = V.scan_forbidden()
    if bad:
        raise V.Infra("forbidden declarations in the Coq development:\n" + "\n".join(bad))
    ok, out = V.make_targets(spec["coq_targets"])
    proof_break = None
    if not ok:
        proof_break = out[-3000:]
    names, printed, assum, okp, outp = ([], [], {}, False, "")
    if ok:
        names, printed, assum, okp, outp = V.property_theorems(pid)
        if not okp:
            proof_break = outp[-3000:]
    obligations = len(names) + len(spec.get("gen_obligations", [])) + len(spec.get("side_conditions", []))
    discharged = 0
    # side conditions regenerated from the sources (translator): a failing one is a broken tie
    side_fail = []
    for name, fn in spec.get("side_conditions", []):
        okc, text = fn()
        if okc:
            discharged += 1
        else:
            side_fail.append(f"side condition {name} (regenerated from the sources) no longer holds:\n{text}")
    if side_fail and not proof_break:
        proof_break = "\n".join(side_fail)[-3000:]
    if ok and okp:
        for n in names:
            if n in assum and V.assumptions_ok(assum[n]):
                discharged += 1
            else:
                raise V.Infra(f"theorem {n} of Properties/{pid}.v has no `Print Assumptions` "
                              f"or depends on a non-allowed axiom: {assum.get(n)}")
        discharged += len(spec.get("gen_obligations", []))
    chk_note = None
    if tier == "thorough" and ok and okp:
        okc, outc, dtc = V.coqchk(pid)
        if not okc:
            raise V.Infra("coqchk rejected the compiled development:\n" + outc[-3000:])
        chk_note = " ".join(outc.split())[-400:]
    return {"proof_break": proof_break, "names": names, "assum": assum,
            "obligations": obligations, "discharged": discharged, "chk_note": chk_note}


def script_phase(spec, part, tier, seed, proof_break):
    """Steps 5-7 for one part (a harness driver + Checks module). Returns a dict of results."""
    pid = spec["pid"]
    sub = dict(spec)
    sub.update(part)
    R = PropertyRun(sub, tier, seed)
    pname = part.get("name")
    if pname:
        R.odir = os.path.join(V.OUT, pid, pname)
        os.makedirs(R.odir, exist_ok=True)
    known, _fixed = V.load_known(pid)
    known_preds = {sig: sub.get("known_sigs", {}).get(sig) for sig, _ in known}
    viol_lines = []
    known_hits = collections.OrderedDict()

    tcfg = sub[tier]
    lines = R.corpus_lines() if not pname else R.corpus_lines_sub(pname)
    ncorpus = len(lines)
    lines += R.gen_lines(seed, tcfg["count"])
    if tier == "thorough":
        lines += R.sweep_lines()
    cases, codes = R.run_scripts(lines, "main")
    mism = [i for i, c in enumerate(codes) if c & 1]
    monf = [i for i, c in enumerate(codes) if c & 2]

    searched = 0
    if (mism or proof_break) and not monf:
        # search for a concrete failing input, cheapest stage first; stop at the first stage that finds one:
        # small sweep families (e.g. the volume family), ten more generator seeds, then the large sweeps
        fams = R.sweep_families() if tier != "thorough" else []
        fams.sort(key=len)
        stages = [f for f in fams if len(f) <= 2000]
        gen_stage = []
        for k in range(1, 11):
            gen_stage += R.gen_lines(seed * 1000 + k, tcfg["count"])
        stages.append(gen_stage)
        stages += [f for f in fams if len(f) > 2000]
        for si, extra in enumerate(stages):
            if not extra:
                continue
            ecases, ecodes = R.run_scripts(extra, f"search{si}")
            searched += len(extra)
            hit = next((i for i, c in enumerate(ecodes) if c & 2), None)
            if hit is not None:
                lines.append(extra[hit])
                cases.append(ecases[hit])
                codes.append(ecodes[hit])
                monf.append(len(lines) - 1)
                break

    # rejections not explained by a known class (verdict bit 2 unset) first
    monf.sort(key=lambda i: (1 if (codes[i] & 4) else 0, 0 if (codes[i] & 1) else 1))
    seen_small = set()
    tag = f"{pname}-" if pname else ""
    rel_odir = os.path.relpath(R.odir, os.path.join(V.OUT, pid))
    nshrink = sub.get("max_shrinks", 4) * (3 if (mism or proof_break) else 1)
    for i in monf[:nshrink]:
        small = R.shrink(lines[i])
        if small in seen_small:
            continue
        seen_small.add(small)
        hit = None
        for sig, pred in known_preds.items():
            if pred and pred(small):
                hit = sig
                break
        scases, scodes = R.run_scripts([small], "small")
        if hit:
            known_hits.setdefault(hit, small)
            continue
        replay = V.write_replay(pid, f"replay-{tag}{len(viol_lines)}.json", {
            "property": pid, "part": pname, "kind": "monitor-rejects-implementation-trace",
            "script": small, "original_script": lines[i], "seed": seed,
            "implementation_observations": scases[0]["obs"],
            "model_observations": V.model_output(pid, sub, scases[0]),
            "replay_cmd": f"./check {pid} --replay '{small}'" + (f" --part {pname}" if pname else "")})
        viol_lines.append(f"VIOLATION property={pid} replay={replay}")
    if len(monf) > nshrink:
        R.notes.append(f"{len(monf)} failing traces, first {nshrink} shrunk")

    # The tie between model and code (or a proof) is broken and no concrete violation outside the
    # known classes was exhibited: the property is no longer shown to hold.
    if (mism or proof_break) and not viol_lines:
        i = mism[0] if mism else None
        obj = {"property": pid, "part": pname, "kind": "no-failing-input-found", "seed": seed,
               "searched_scripts": len(lines) + searched}
        if proof_break:
            obj["broken"] = f"proof obligation of Properties/{pid}.v (or a file it depends on) no longer checks"
            obj["coq_output_tail"] = proof_break
        if i is not None:
            obj["broken_correspondence"] = f"{sub['cases_header'].split('Checks.')[-1].split('.')[0]}: model and implementation differ"
            obj["script"] = lines[i]
            obj["implementation_observations"] = cases[i]["obs"]
            obj["model_observations"] = V.model_output(pid, sub, cases[i])
            obj["mismatching_scripts"] = len(mism)
        replay = V.write_replay(pid, f"replay-{tag}tie.json", obj)
        viol_lines.append(f"VIOLATION property={pid} replay={replay} no-failing-input-found")

    # known findings re-established from their committed witnesses
    known_msgs = []
    for sig, small in known_hits.items():
        known_msgs.append(f"KNOWN-FINDING: property={pid} {sig}: {dict(known)[sig]} [script {small}]")
    for sig, _ in known:
        w = sub.get("known_witness", {}).get(sig)
        if sig not in known_hits and w:
            wc, wcodes = R.run_scripts([w], "known")
            if wcodes[0] & 2:
                known_msgs.append(f"KNOWN-FINDING: property={pid} {sig}: {dict(known)[sig]} [script {w}]")
                known_hits[sig] = w
            else:
                known_msgs.append(f"note: known finding {sig} no longer reproduces on its witness {w}")

    nontriv = set()
    tag_hist = collections.Counter()
    for l, c in zip(lines, cases):
        for t in c["tags"]:
            tag_hist[t] += 1
        if sub["nontrivial"](c):
            nontriv.add(l)
    sizes = collections.Counter(min(c["nops"] // 10 * 10, 90) for c in cases)
    samples = []
    for i in list(range(min(2, len(cases)))) + ([len(cases) - 1] if len(cases) > 2 else []):
        samples.append({"part": pname, "script": lines[i],
                        "implementation_observations": cases[i]["obs"][:600],
                        "verdict_code": codes[i]})
    return {"name": pname, "viol": viol_lines, "known_msgs": known_msgs,
            "known_hits": list(known_hits.keys()), "evaluations": len(cases) + searched,
            "nontrivial": len(nontriv), "samples": samples, "corpus": ncorpus,
            "ops_total": sum(c["nops"] for c in cases), "tag_hist": dict(tag_hist),
            "sizes": {str(k): v for k, v in sorted(sizes.items())}, "mism": len(mism),
            "monf": len(monf), "notes": R.notes, "rule": sub["rule"]}


def run_property(spec, tier, seed):
    """Returns process exit code."""
    pid = spec["pid"]
    t0 = time.time()
    P = proof_phase(spec, tier)
    V.cargo_build()
    parts = spec.get("parts") or [{}]
    results = [script_phase(spec, part, tier, seed, P["proof_break"]) for part in parts]

    viol_lines = [v for r in results for v in r["viol"]]
    coverage = {
        "obligations": max(P["obligations"], 1),
        "discharged": P["discharged"],
        "checker_cmd": f"make -C coq {' '.join(spec['coq_targets'])} && coqc Properties/{pid}.v (Print Assumptions)"
                       + (" && coqchk -o -silent" if tier == "thorough" else ""),
        "trusted_base": spec["trusted_base"],
        "theorems": P["names"],
        "print_assumptions": P["assum"],
        "evaluations": sum(r["evaluations"] for r in results),
        "distinct_nontrivial": sum(r["nontrivial"] for r in results),
        "rule": " || ".join((f"[{r['name']}] " if r["name"] else "") + r["rule"] for r in results),
        "samples": [s for r in results for s in r["samples"]],
        "corpus_scripts": sum(r["corpus"] for r in results),
        "ops_total": sum(r["ops_total"] for r in results),
        "scenario_histogram": {(r["name"] or "all"): r["tag_hist"] for r in results},
        "script_length_histogram": {(r["name"] or "all"): r["sizes"] for r in results},
        "disagreements_checked": sum(r["mism"] for r in results),
        "monitor_rejections": sum(r["monf"] for r in results),
        "known_findings_reproduced": [k for r in results for k in r["known_hits"]],
        "notes": [n for r in results for n in r["notes"]]
                 + ([f"coqchk: {P['chk_note']}"] if P["chk_note"] else []),
        "exhaustive": False,
    }
    V.write_evidence(pid, tier, seed, coverage, list(spec.get("assumptions", [])),
                     time.time() - t0, len(viol_lines))
    for r in results:
        for m in r["known_msgs"]:
            V.log(m)
    for v in viol_lines:
        V.log(v)
    V.log(f"{pid} {tier}: theorems {P['discharged']}/{P['obligations']}, "
          f"{coverage['evaluations']} scripts ({coverage['distinct_nontrivial']} non-trivial), "
          f"{coverage['disagreements_checked']} model/impl disagreements, "
          f"{coverage['monitor_rejections']} monitor rejections, {time.time() - t0:.1f}s")
    return 1 if viol_lines else 0


def replay(spec, script, part_name=None):
    if spec.get("parts"):
        part = next((p for p in spec["parts"] if p.get("name") == part_name), spec["parts"][0])
        sub = dict(spec)
        sub.update(part)
        spec = sub
    R = PropertyRun(spec, "quick", 0)
    V.cargo_build()
    ok, out = V.make_targets(spec["coq_targets"])
    if not ok:
        raise V.Infra(out[-3000:])
    cases, codes = R.run_scripts([script], "replay")
    V.log(f"script: {script}")
    V.log(f"implementation: {cases[0]['obs']}")
    V.log(f"model:          {V.model_output(spec['pid'], spec, cases[0])}")
    V.log(f"verdict code:   {codes[0]} (bit0 model!=impl, bit1 monitor rejects the implementation trace)")
    if codes[0] & 2:
        V.log(f"VIOLATION property={spec['pid']} replay=<given script>")
        return 1
    return 0
