"""The common flow of a property check (DESIGN.md section 3, verdict table)."""
import collections
import os
import sys
import time

from . import vcheck as V


def script_split(line):
    cfg, rest = line.split("|", 1)
    return cfg, rest.split()


def script_join(cfg, toks):
    return cfg + "|" + " ".join(toks)


class PropertyRun:
    def __init__(self, spec, tier, seed):
        self.spec = spec
        self.pid = spec["pid"]
        self.tier = tier
        self.seed = seed
        self.odir = os.path.join(V.OUT, self.pid)
        os.makedirs(self.odir, exist_ok=True)
        self.t0 = time.time()
        self.notes = []

    # ---- implementation + model on a list of script lines --------------------------------
    def run_scripts(self, lines, tag):
        ops_path = os.path.join(self.odir, f"{tag}.ops.txt")
        tsv_path = os.path.join(self.odir, f"{tag}.cases.tsv")
        with open(ops_path, "w") as f:
            f.write("\n".join(lines) + "\n")
        V.harness([self.spec["harness"], "run", "--in", ops_path, "--out", tsv_path]
                  + self.spec.get("run_args", []), timeout=self.spec.get("run_timeout", 1500))
        cases = V.read_cases(tsv_path)
        if len(cases) != len(lines):
            raise V.Infra(f"{len(lines)} scripts but {len(cases)} cases from the harness ({tag})")
        codes = V.eval_cases(self.pid, self.spec, cases)
        return cases, codes

    def fails_monitor(self, line):
        cases, codes = self.run_scripts([line], "shrink")
        return bool(codes[0] & 2)

    def shrink(self, line):
        cfg, toks = script_split(line)
        small = V.ddmin(toks, lambda t: self.fails_monitor(script_join(cfg, t)),
                        budget=self.spec.get("shrink_budget", 60))
        return script_join(cfg, small)

    # ---- script sources -------------------------------------------------------------------
    def corpus_lines(self):
        lines = []
        cdir = os.path.join(V.ROOT, "corpus", self.pid)
        if os.path.isdir(cdir):
            for f in sorted(os.listdir(cdir)):
                for line in open(os.path.join(cdir, f)):
                    line = line.strip()
                    if line and not line.startswith("#"):
                        lines.append(line)
        return lines

    def gen_lines(self, seed, count):
        out = V.harness([self.spec["harness"], "gen", "--seed", str(seed), "--count", str(count)]
                        + self.spec.get("gen_args", []))
        return [l for l in out.split("\n") if l.strip()]

    def sweep_lines(self):
        lines = []
        for extra in self.spec.get("sweeps", []):
            out = V.harness([self.spec["harness"], "sweep"] + extra, timeout=1500)
            lines += [l for l in out.split("\n") if l.strip()]
        return lines


def run_property(spec, tier, seed):
    """Returns process exit code."""
    pid = spec["pid"]
    R = PropertyRun(spec, tier, seed)
    known, _fixed = V.load_known(pid)
    known_preds = {sig: spec.get("known_sigs", {}).get(sig) for sig, _ in known}
    viol_lines = []         # text of VIOLATION lines
    known_hits = collections.OrderedDict()
    assumptions_used = list(spec.get("assumptions", []))

    # 1-3: proofs -------------------------------------------------------------------------
    if "translator" in spec:
        spec["translator"]()
    bad = V.scan_forbidden()
    if bad:
        raise V.Infra("forbidden declarations in the Coq development:\n" + "\n".join(bad))
    ok, out = V.make_targets(spec["coq_targets"])
    proof_break = None
    if not ok:
        # a broken proof: decide whether it is one of the generated side conditions
        proof_break = out[-3000:]
    names, printed, assum, okp, outp = ([], [], {}, False, "")
    if ok:
        names, printed, assum, okp, outp = V.property_theorems(pid)
        if not okp:
            proof_break = outp[-3000:]
    obligations = len(names) + len(spec.get("gen_obligations", []))
    discharged = 0
    if ok and okp:
        for n in names:
            if n in assum and V.assumptions_ok(assum[n]):
                discharged += 1
            else:
                raise V.Infra(f"theorem {n} of Properties/{pid}.v has no `Print Assumptions` "
                              f"or depends on a non-allowed axiom: {assum.get(n)}")
        discharged += len(spec.get("gen_obligations", []))
    chk_note = None
    if tier == "thorough" and ok and okp:
        okc, outc, dtc = V.coqchk(pid)
        if not okc:
            raise V.Infra("coqchk rejected the compiled development:\n" + outc[-3000:])
        chk_note = " ".join(outc.split())[-400:]

    # 4: harness ----------------------------------------------------------------------------
    V.cargo_build()

    # 5-6: correspondence + monitors ---------------------------------------------------------
    tcfg = spec[tier]
    lines = R.corpus_lines()
    ncorpus = len(lines)
    lines += R.gen_lines(seed, tcfg["count"])
    if tier == "thorough":
        lines += R.sweep_lines()
    cases, codes = R.run_scripts(lines, "main")
    mism = [i for i, c in enumerate(codes) if c & 1]
    monf = [i for i, c in enumerate(codes) if c & 2]

    searched = 0
    if (mism or proof_break) and not monf:
        # the tie is broken but no trace violates the monitor yet: search further
        extra = []
        for k in range(1, 11):
            extra += R.gen_lines(seed * 1000 + k, tcfg["count"])
        extra += R.sweep_lines() if tier != "thorough" else []
        ecases, ecodes = R.run_scripts(extra, "search")
        searched = len(extra)
        for i, c in enumerate(ecodes):
            if c & 2:
                lines.append(extra[i])
                cases.append(ecases[i])
                codes.append(c)
                monf.append(len(lines) - 1)
                break

    # 7: verdict ------------------------------------------------------------------------------
    # rejections not explained by a known class (verdict bit 2 unset) first
    monf.sort(key=lambda i: 1 if (codes[i] & 4) else 0)
    seen_small = set()
    for i in monf[:spec.get("max_shrinks", 6)]:
        small = R.shrink(lines[i])
        if small in seen_small:
            continue
        seen_small.add(small)
        hit = None
        for sig, pred in known_preds.items():
            if pred and pred(small):
                hit = sig
                break
        scases, scodes = R.run_scripts([small], "small")
        if hit:
            known_hits.setdefault(hit, small)
            continue
        replay = V.write_replay(pid, f"replay-{len(viol_lines)}.json", {
            "property": pid, "kind": "monitor-rejects-implementation-trace",
            "script": small, "original_script": lines[i], "seed": seed,
            "implementation_observations": scases[0]["obs"],
            "model_observations": V.model_output(pid, spec, scases[0]),
            "replay_cmd": f"./check {pid} --replay '{small}'"})
        viol_lines.append(f"VIOLATION property={pid} replay={replay}")
    if len(monf) > spec.get("max_shrinks", 6):
        R.notes.append(f"{len(monf)} failing traces, first {spec.get('max_shrinks', 6)} shrunk")

    if not monf and (mism or proof_break):
        i = mism[0] if mism else None
        obj = {"property": pid, "kind": "no-failing-input-found", "seed": seed,
               "searched_scripts": len(lines) + searched}
        if proof_break:
            obj["broken"] = f"proof obligation of Properties/{pid}.v (or a file it depends on) no longer checks"
            obj["coq_output_tail"] = proof_break
        if i is not None:
            small_cfg, toks = script_split(lines[i])
            obj["broken_correspondence"] = f"Checks/{pid}check.v: model and implementation differ"
            obj["script"] = lines[i]
            obj["implementation_observations"] = cases[i]["obs"]
            obj["model_observations"] = V.model_output(pid, spec, cases[i])
            obj["mismatching_scripts"] = len(mism)
        replay = V.write_replay(pid, "replay-tie.json", obj)
        viol_lines.append(f"VIOLATION property={pid} replay={replay} no-failing-input-found")

    # evidence --------------------------------------------------------------------------------
    nontriv = set()
    tag_hist = collections.Counter()
    for l, c in zip(lines, cases):
        for t in c["tags"]:
            tag_hist[t] += 1
        if spec["nontrivial"](c):
            nontriv.add(l)
    sizes = collections.Counter(min(c["nops"] // 10 * 10, 90) for c in cases)
    samples = []
    for i in list(range(min(2, len(cases)))) + ([len(cases) - 1] if len(cases) > 2 else []):
        samples.append({"script": lines[i], "implementation_observations": cases[i]["obs"][:600],
                        "verdict_code": codes[i]})
    coverage = {
        "obligations": max(obligations, 1),
        "discharged": discharged,
        "checker_cmd": f"make -C coq {' '.join(spec['coq_targets'])} && coqc Properties/{pid}.v (Print Assumptions)"
                       + (" && coqchk -o -silent" if tier == "thorough" else ""),
        "trusted_base": spec["trusted_base"],
        "theorems": names,
        "print_assumptions": assum,
        "evaluations": len(cases) + searched,
        "distinct_nontrivial": len(nontriv),
        "rule": spec["rule"],
        "samples": samples,
        "corpus_scripts": ncorpus,
        "ops_total": sum(c["nops"] for c in cases),
        "scenario_histogram": dict(tag_hist),
        "script_length_histogram": {str(k): v for k, v in sorted(sizes.items())},
        "disagreements_checked": len(mism),
        "monitor_rejections": len(monf),
        "known_findings_reproduced": list(known_hits.keys()),
        "notes": R.notes + ([f"coqchk: {chk_note}"] if chk_note else []),
        "exhaustive": False,
    }
    V.write_evidence(pid, tier, seed, coverage, assumptions_used, time.time() - R.t0, len(viol_lines))

    for sig, small in known_hits.items():
        desc = dict(known)[sig]
        V.log(f"KNOWN-FINDING: property={pid} {sig}: {desc} [script {small}]")
    for sig, _ in known:
        if sig not in known_hits and spec.get("known_witness", {}).get(sig):
            # the listed finding is re-established from its committed witness on every run
            w = spec["known_witness"][sig]
            wc, wcodes = R.run_scripts([w], "known")
            if wcodes[0] & 2:
                V.log(f"KNOWN-FINDING: property={pid} {sig}: {dict(known)[sig]} [script {w}]")
            else:
                V.log(f"note: known finding {sig} no longer reproduces on its witness {w}")
    for v in viol_lines:
        V.log(v)
    V.log(f"{pid} {tier}: theorems {discharged}/{obligations}, {len(cases)} scripts "
          f"({len(nontriv)} non-trivial), {len(mism)} model/impl disagreements, "
          f"{len(monf)} monitor rejections, {time.time() - R.t0:.1f}s")
    return 1 if viol_lines else 0


def replay(spec, script):
    R = PropertyRun(spec, "quick", 0)
    V.cargo_build()
    ok, out = V.make_targets(spec["coq_targets"])
    if not ok:
        raise V.Infra(out[-3000:])
    cases, codes = R.run_scripts([script], "replay")
    V.log(f"script: {script}")
    V.log(f"implementation: {cases[0]['obs']}")
    V.log(f"model:          {V.model_output(spec['pid'], spec, cases[0])}")
    V.log(f"verdict code:   {codes[0]} (bit0 model!=impl, bit1 monitor rejects the implementation trace)")
    if codes[0] & 2:
        V.log(f"VIOLATION property={spec['pid']} replay=<given script>")
        return 1
    return 0
