#!/bin/sh
# Builds the whole framework offline from files on disk: every .vo of the Coq development
# (full .vo build) and the correspondence harness against /repo's working tree.
set -e
cd "$(dirname "$0")"
export CARGO_NET_OFFLINE=true
mkdir -p .cache out evidence
( cd coq && coq_makefile -f _CoqProject -o Makefile >/dev/null && timeout 3000 make -k -j16 || echo "warning: some Coq files did not build; each check rebuilds exactly what it needs" )
( cd harness && CARGO_TARGET_DIR=../.cache/target RUSTFLAGS="--cfg tarpc_verif" timeout 3000 cargo build --offline --quiet )
echo "setup ok"
